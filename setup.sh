#!/bin/sh
# Build the symbolic executor from sources on disk only (offline).
set -e
cd "$(dirname "$0")/engine"
export GOFLAGS=-mod=mod GOPROXY=off GOSUMDB=off GOTOOLCHAIN=local
mkdir -p ../bin
go build -o ../bin/symgo .
