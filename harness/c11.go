package main

// C11 — TCP framing depends on the bytes, not on how the stream is segmented.

import (
	"bufio"
	"io"
	"strings"

	"MODULEPATH/zzverif/fakenet"
	"MODULEPATH/zzverif/rt"
)

// chunkReader delivers a byte stream in segments of a fixed size (0 = all at once).
type chunkReader struct {
	data string
	size int
}

func (r *chunkReader) Read(p []byte) (int, error) {
	if len(r.data) == 0 {
		return 0, io.EOF
	}
	k := len(r.data)
	if r.size > 0 && r.size < k {
		k = r.size
	}
	n := copy(p, r.data[:k])
	r.data = r.data[n:]
	return n, nil
}

type gStreamMsg struct {
	text   string
	method string
	long   string
	body   string
}

// genStreamMsg: CRLF or LF line ends, one header line that may be longer than the reader
// window, a body that may itself look like SIP text or contain CR / LF.
func genStreamMsg(L, W int, i int) gStreamMsg {
	var m gStreamMsg
	eol := "\r\n"
	reduced := rt.Param("R") > 0
	if !reduced && rt.Bool("lf-only") {
		eol = "\n"
	}
	m.method = "OPTIONS"
	if !reduced {
		m.method = []string{"OPTIONS", "INFO"}[rt.Choice("method", 2)]
	}
	// BIG = 1: the first message has a body larger than the default window; BIG = 2: small
	// pipelined messages with non-empty bodies (concrete cuts around the message boundary)
	big := rt.Param("BIG") == 1 && i == 0
	pipe := rt.Param("BIG") == 2
	linelen := 0
	if !big && !pipe {
		linelen = rt.Choice("linelen", 4)
	}
	switch linelen {
	case 3: // longer than two windows: three or more chunks
		m.long = rt.Str("xlong", "alnum", 2*W+1, 2*W+L)
	case 0:
		m.long = rt.Str("short", "alnum", 1, L)
	case 1: // around the window size
		m.long = rt.Str("mid", "alnum", W-10, W-6)
	case 2: // longer than the window
		m.long = rt.Str("long", "alnum", W+1, W+L)
	}
	bodykind := 3
	if pipe {
		bodykind = 1
	} else if !big {
		bodykind = rt.Choice("bodykind", 3)
	}
	switch bodykind {
	case 3: // BIG: a body larger than the default bufio window of the real TCP loop (4096 bytes)
		m.body = strings.Repeat("b", 4100)
	case 0:
		m.body = ""
	case 1:
		m.body = rt.Str("body", "any", 1, L)
	case 2:
		m.body = "SIP/2.0 200 OK\r\n\r\n" + rt.Str("bodytail", "[\\r\\n a-z:]", 0, L)
	}
	m.text = m.method + " sip:a@b SIP/2.0" + eol + "X-Long: " + m.long + eol + "Call-ID: m" + itoa(i) + eol + "Content-Length: " + itoa(len(m.body)) + eol + eol + m.body
	return m
}

// VC11_Framing: a concatenation of 1..K messages with 0..3 CRLF keep-alives in between, read
// through bufio.NewReaderSize(r, W) with the reader delivering 1-byte, 5-byte or whole segments:
// exactly those messages come out, in order, each with its exact header and body.
func VC11_Framing() {
	L, K, W := rt.Param("L"), rt.Param("K"), rt.Param("W")
	k := rt.Choice("messages", K) + 1
	stream := ""
	var ms []gStreamMsg
	for i := 0; i < k; i++ {
		for j := rt.Choice("keepalives", 3); j > 0; j-- {
			stream += "\r\n"
		}
		m := genStreamMsg(L, W, i)
		ms = append(ms, m)
		stream += m.text
	}
	seg := []int{0, 1, 5}[rt.Choice("segment", 3)]
	reader := bufio.NewReaderSize(&chunkReader{data: stream, size: seg}, W)
	for i, m := range ms {
		got, err := ParseMessage(reader)
		rt.Assert(err == nil, "every message of the stream is extracted")
		if err != nil {
			return
		}
		meth, _ := got.GetMethod()
		rt.Assert(meth == m.method, "messages come out in order")
		v, verr := got.GetHeaderValue("X-Long")
		s, _ := v.(string)
		rt.Assert(verr == nil && s == m.long, "header values are exact, whatever their length relative to the reader window")
		cid, _ := got.GetCallID()
		rt.Assert(cid == "m"+itoa(i), "headers after a long line are intact")
		rt.Assert(string(got.body) == m.body, "bodies are exact (delimited by Content-Length, even if they look like SIP text)")
	}
	_, err := ParseMessage(reader)
	rt.Assert(err != nil, "nothing else is extracted after the last message")
	rt.Reach("end")
}

// VC11_Transport: the real TCP server transport on a scripted connection: the stream arrives
// in segments; the handler receives exactly the messages, in order; garbage closes the connection.
func VC11_Transport() {
	L, K := rt.Param("L"), rt.Param("K")
	fakenet.Reset()
	conn := fakenet.NewTCPConn(wListenAddr+":5060", "10.0.2.2:40000")
	t := NewTCPServerTransportWithConn(conn, true, NewSelfLearnRoute())
	h := &vHandler{}
	k := rt.Choice("messages", K) + 1
	if rt.Param("BIG") > 0 {
		k = K // a big first message is only interesting with something behind it
	}
	stream := ""
	var ms []gStreamMsg
	for i := 0; i < k; i++ {
		for j := rt.Choice("keepalives", 3); j > 0; j-- {
			stream += "\r\n"
		}
		m := genStreamMsg(L, 24, i)
		ms = append(ms, m)
		stream += m.text
	}
	garbage := rt.Bool("garbage-at-end")
	if garbage {
		stream += "\r\nnot a sip message\r\n\r\n"
	}
	t.Start(h)
	rt.Quiesce()
	// two cut positions anywhere in the stream
	c1 := 0
	c2 := len(stream)
	if rt.Param("BIG") > 0 {
		// concrete cuts around the big message: none, in its header, in its body, exactly behind it,
		// a few bytes into the next message
		end0 := len(ms[0].text)
		c1 = []int{0, 20, end0 / 2, end0 - 1, end0, end0 + 7}[rt.Choice("bigcut", 6)]
		if rt.Param("CUTS") > 1 {
			c2 = c1 + []int{0, 1, 2100, len(stream) - c1}[rt.Choice("bigcut2", 4)]
		}
	} else {
		c1 = rt.Int("cut1", 0, 400)
		if rt.Param("CUTS") > 1 {
			c2 = rt.Int("cut2", 0, 400)
		}
	}
	rt.Assume(c1 <= c2 && c2 <= len(stream))
	conn.Feed([]byte(stream[:c1]))
	rt.Quiesce()
	conn.Feed([]byte(stream[c1:c2]))
	rt.Quiesce()
	conn.Feed([]byte(stream[c2:]))
	rt.Quiesce()
	rt.Assert(len(h.got) == k, "exactly the messages of the stream are delivered")
	if len(h.got) != k {
		return
	}
	for i, m := range ms {
		meth, _ := h.got[i].Message.GetMethod()
		cid, _ := h.got[i].Message.GetCallID()
		rt.Assert(meth == m.method && cid == "m"+itoa(i), "in order")
		rt.Assert(string(h.got[i].Message.body) == m.body, "with exact bodies")
		rt.Assert(h.got[i].TcpConn == fakenet.Conn(conn) && h.got[i].PeerAddr == "10.0.2.2" && h.got[i].PeerPort == 40000, "attributed to the connection they arrived on")
	}
	if garbage {
		rt.Assert(conn.IsClosed(), "a connection carrying undecodable input is closed")
	}
	rt.Reach("end")
}
