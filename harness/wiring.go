package main

// Configuration wiring: the properties whose anchors include main.go are also checked through
// the real startProxy / createPreConfigRoute, with the options as the configuration file spells
// them, on the scripted network (UDP listener 10.0.0.9:5060, UDP backends 10.0.1.N:5060 reached
// from 10.0.0.9:5080).

import (
	"strconv"

	"MODULEPATH/zzverif/fakenet"
	"MODULEPATH/zzverif/faketime"
	"MODULEPATH/zzverif/rt"
)

type wiredOpts struct {
	keep          string
	dialogTimeout int
	must          bool
	noReceived    bool
	nBackends     int
	route         []struct {
		Dests    []string
		Protocol string
		NextHop  string
	}
}

// startWired starts one service with one listener through the real startProxy and returns the
// listener's UDP socket (nil if the proxy did not come up).
func startWired(o wiredOpts) *fakenet.UDPConn {
	fakenet.Reset()
	faketime.SetClock(1000000000000)
	cfg := ProxyConfig{Name: wService, KeepNextHopRoute: o.keep, DialogTimeout: o.dialogTimeout, Route: o.route}
	var backends []string
	for i := 0; i < o.nBackends; i++ {
		backends = append(backends, "udp://10.0.1."+itoa(i+1)+":5060")
	}
	cfg.Listens = append(cfg.Listens, struct {
		Address            string
		UDPPort            int      `yaml:"udp-port,omitempty"`
		TCPPort            int      `yaml:"tcp-port,omitempty"`
		BackendLocalAdress string   `yaml:"backend-local-address,omitempty"`
		BackendLocalPort   int      `yaml:"backend-local-port,omitempty"`
		Backends           []string `yaml:",omitempty"`
		Dests              []string `yaml:",omitempty"`
		NoReceived         bool     `yaml:"no-received,omitempty"`
		defRoute           bool     `yaml:"def-route,omitempty"`
		MustRecordRoute    bool     `yaml:"must-record-route,omitempty"`
	}{Address: wListenAddr, UDPPort: 5060, BackendLocalAdress: wListenAddr, BackendLocalPort: 5080,
		Backends: backends, NoReceived: o.noReceived, MustRecordRoute: o.must})
	err := startProxy(cfg, createPreConfigRoute(cfg), createPreConfigHostResolver(nil, cfg))
	rt.Assert(err == nil, "proxy starts")
	if err != nil {
		return nil
	}
	rt.Quiesce()
	for _, u := range fakenet.UDPConns {
		if u.LocalAddr().String() == wListenAddr+":5060" {
			return u
		}
	}
	rt.Assert(false, "UDP listener socket created")
	return nil
}

// sentTo lists the payloads of the datagrams sent to one address since index `from` of the log.
func sentTo(remote string, from int) []string {
	var out []string
	for i, d := range fakenet.Sent {
		if i >= from && d.Remote == remote {
			out = append(out, string(d.Payload))
		}
	}
	return out
}

// VC15_Wiring: the dialog timeout as configured — dialogTimeout of the service, or, when that
// is absent / not positive, DEFAULT_DIALOG_TIMEOUT of the environment, or 1200 s — is the
// lifetime of a pin made by real traffic through the real wiring.
func VC15_Wiring() {
	T := rt.Int("dialogTimeout", -1, 4000)
	eff := T
	if T <= 0 {
		eff = 1200
		switch rt.Choice("env", 3) {
		case 1:
			v := rt.Dec("env-timeout", 4)
			rt.Setenv("DEFAULT_DIALOG_TIMEOUT", v)
			n, _ := strconv.Atoi(v)
			rt.Assume(n >= 1)
			eff = n
		case 2:
			rt.Setenv("DEFAULT_DIALOG_TIMEOUT", rt.Str("env-garbage", "[a-z ]", 0, 3))
		}
	}
	sock := startWired(wiredOpts{dialogTimeout: T, nBackends: 2})
	if sock == nil {
		return
	}
	dlg := "From: <sip:alice@example.com>;tag=a\r\nTo: <sip:bob@" + wService + ">"
	invite := "INVITE sip:bob@" + wService + " SIP/2.0\r\nVia: SIP/2.0/UDP 10.0.2.2:5060;branch=z9hG4bKi1\r\n" + dlg + "\r\nCall-ID: c15w\r\nCSeq: 1 INVITE\r\nContent-Length: 0\r\n\r\n"
	sock.Deliver("10.0.2.2:5060", []byte(invite))
	rt.Quiesce()
	var first, other string
	for _, d := range fakenet.Sent {
		if d.Remote == "10.0.1.1:5060" {
			first, other = "10.0.1.1:5060", "10.0.1.2:5060"
		} else if d.Remote == "10.0.1.2:5060" {
			first, other = "10.0.1.2:5060", "10.0.1.1:5060"
		}
	}
	rt.Assert(len(fakenet.Sent) == 1 && first != "", "the INVITE reaches one backend")
	if len(fakenet.Sent) != 1 || first == "" {
		return
	}
	// the backend answers with the Via stack it received
	via := refRead(string(fakenet.Sent[0].Payload)).listOf("via")
	rt.Assert(len(via) == 2, "own Via pushed")
	if len(via) != 2 {
		return
	}
	ok200 := "SIP/2.0 200 OK\r\nVia: " + via[0] + "\r\nVia: " + via[1] + "\r\n" + dlg + ";tag=b\r\nCall-ID: c15w\r\nCSeq: 1 INVITE\r\nContent-Length: 0\r\n\r\n"
	sock.Deliver(first, []byte(ok200))
	rt.Quiesce()
	rt.Assert(len(sentTo("10.0.2.2:5060", 0)) == 1, "the 200 returns to the caller")
	dt := rt.Int("dt_s", 0, 10000)
	rt.Assume(dt != eff)
	faketime.Advance(faketime.Duration(dt) * 1000000000)
	mark := len(fakenet.Sent)
	bye := "BYE sip:bob@" + wService + " SIP/2.0\r\nVia: SIP/2.0/UDP 10.0.2.2:5060;branch=z9hG4bKb1\r\n" + dlg + ";tag=b\r\nCall-ID: c15w\r\nCSeq: 2 BYE\r\nContent-Length: 0\r\n\r\n"
	sock.Deliver("10.0.2.2:5060", []byte(bye))
	rt.Quiesce()
	toFirst, toOther := len(sentTo(first, mark)), len(sentTo(other, mark))
	rt.Assert(toFirst+toOther == 1 && len(fakenet.Sent) == mark+1, "the in-dialog request reaches exactly one backend")
	if dt < eff {
		rt.Assert(toFirst == 1, "configured dialog timeout not yet elapsed: the pin is honoured")
	} else {
		rt.Assert(toOther == 1, "configured dialog timeout elapsed: the request is load-balanced like a new one")
	}
	rt.ObserveInt("eff", eff)
	rt.Reach("end")
}

// VC18_Wiring: the route section of the configuration (several destinations per item, protocol,
// next hop with or without port) becomes the static route table: every destination of an item
// leads to that item's next hop, with the default port of the item's protocol.
func VC18_Wiring() {
	var route []struct {
		Dests    []string
		Protocol string
		NextHop  string
	}
	protos := []string{"udp", "tcp", "tls"}
	p1, p2 := protos[rt.Choice("proto1", 3)], protos[rt.Choice("proto2", 3)]
	hop1, hop2 := "hop1.example.net", "hop2.example.net"
	port1 := ""
	if rt.Bool("hop1-port") {
		port1 = genPort()
		hop1 += ":" + port1
	}
	route = append(route, struct {
		Dests    []string
		Protocol string
		NextHop  string
	}{Dests: []string{"a.example.org", "*.b.example.org", "c.example.org"}, Protocol: p1, NextHop: hop1})
	route = append(route, struct {
		Dests    []string
		Protocol string
		NextHop  string
	}{Dests: []string{"default", "d.example.org"}, Protocol: p2, NextHop: hop2})
	table := createPreConfigRoute(ProxyConfig{Name: wService, Route: route})
	host := []string{"a.example.org", rt.Str("sub", "[a-z0-9-]", 1, 3) + ".b.example.org", "c.example.org", "d.example.org", rt.Str("other", "[a-z]", 1, 3) + ".nowhere.example.com"}
	k := rt.Choice("lookup", 5)
	pr, h, p, err := table.FindRoute(host[k])
	rt.Assert(err == nil, "every looked-up host is routable (an item lists it, or default)")
	if err != nil {
		return
	}
	def := func(proto string) int {
		if proto == "tls" {
			return 5061
		}
		return 5060
	}
	if k <= 2 {
		rt.Assert(pr == p1 && h == "hop1.example.net", "every destination of an item leads to the item's next hop and protocol")
		if port1 != "" {
			rt.Assert(itoa(p) == port1, "explicit next-hop port")
		} else {
			rt.Assert(p == def(p1), "default port of the item's protocol")
		}
	} else {
		rt.Assert(pr == p2 && h == "hop2.example.net" && p == def(p2), "second item / default entry")
	}
	rt.Reach("end")
}

// VC06_Wiring: must-record-route as configured, through the real wiring: a request handed to a
// backend gets the listener's Record-Route entry iff it already carries one or the option is on.
func VC06_Wiring() {
	must := rt.Bool("must-record-route")
	sock := startWired(wiredOpts{must: must, nBackends: 1})
	if sock == nil {
		return
	}
	rr := ""
	has := rt.Bool("has-record-route")
	if has {
		rr = "Record-Route: <sip:10.0.7.7;lr>\r\n"
	}
	text := "INVITE sip:bob@" + wService + " SIP/2.0\r\nVia: SIP/2.0/UDP 10.0.2.2:5060;branch=z9hG4bKw6\r\n" + rr +
		"From: <sip:alice@example.com>;tag=a\r\nTo: <sip:bob@" + wService + ">\r\nCall-ID: c6w\r\nCSeq: 1 INVITE\r\nContent-Length: 0\r\n\r\n"
	sock.Deliver("10.0.2.2:5060", []byte(text))
	rt.Quiesce()
	out := sentTo("10.0.1.1:5060", 0)
	rt.Assert(len(out) == 1 && len(fakenet.Sent) == 1, "the request reaches the backend once")
	if len(out) != 1 {
		return
	}
	m := refRead(out[0])
	via := m.listOf("via")
	rt.Assert(len(via) == 2 && len(via[0]) > 40 && via[0][:40] == "SIP/2.0/UDP 10.0.0.9:5060;branch=z9hG4bK", "one fresh top Via naming the listener")
	got := m.listOf("record-route")
	if has || must {
		want := 1
		if has {
			want = 2
		}
		rt.Assert(len(got) == want && got[0] == "<sip:10.0.0.9:5060;lr>", "Record-Route entry of the listener ahead of the existing ones")
	} else {
		rt.Assert(len(got) == 0, "no Record-Route present and the option is off: none is added")
	}
	rt.Reach("end")
}
