package main

// Shared harness library: generators for RFC 3261 text (skeleton choices x symbolic atoms),
// an independent reference reader for relayed messages, and test doubles.
//
// Everything here runs twice: symbolically under symgo and natively for replay/validation.

import (
	"bufio"
	"strconv"
	"strings"

	"MODULEPATH/zzverif/rt"
)

// ---------------------------------------------------------------- byte classes (rt.Str specs)

const (
	clsToken    = "token"                        // RFC 3261 token, includes '%'
	clsHost     = "host"                         // hostname / IPv4 characters
	clsUser     = "alnum+[-_.!~*'()%&=+$/]"      // user-unreserved subset without ';' '?' ','
	clsUserSQ   = "alnum+[-_.!~*'()%&=+$/;?]"    // ... with ';' and '?' (known findings)
	clsPass     = "alnum+[-_.!~*'()%&=+$]"
	clsParam    = "alnum+[-_.!~*'()%\\[\\]/:&+$]" // paramchar
	clsHdr      = "alnum+[-_.!~*'()%\\[\\]/?:+$]" // hnv-unreserved + unreserved + escaped
	clsQuoted   = "print-[\"\\\\<>,]"            // qdtext without quote, backslash, '<' '>' ','
	clsValue    = "nocrlf"                       // header field value bytes
	clsCallID   = "alnum+[-_.!~*'()%+@]"
	clsTelParam = "alnum+[-_.!~*'()%+]"
)

// gURI is a generated URI together with the components the text denotes.
type gURI struct {
	text   string
	sip    bool
	scheme string
	user   string
	pass   string
	host   string
	port   string // "" = absent
	pkeys  []string
	pvals  []string // "" = valueless
	hkeys  []string
	hvals  []string
	ipv6   bool
}

// genHost: hostname / IPv4 characters; with allowV6 also an IPv6 reference.
func genHost(L int, allowV6 bool) (string, bool) {
	if allowV6 {
		return "[" + rt.Str("v6", "[0-9a-f:]", 2, L+1) + "]", true
	}
	return rt.Str("host", clsHost, 1, L), false
}

func genPort() string {
	p := rt.Dec("port", 5)
	rt.Assume(p != "0")
	n, _ := strconv.Atoi(p)
	rt.Assume(n <= 65535)
	return p
}

// genSIPURI builds sip:/sips: URIs. P: max URI parameters, H: max URI headers.
func genSIPURI(L, P, H int, userSQ, allowV6 bool) gURI {
	var u gURI
	u.sip = true
	u.scheme = "sip"
	if rt.Bool("sips") {
		u.scheme = "sips"
	}
	u.text = u.scheme + ":"
	switch rt.Choice("userinfo", 3) {
	case 1:
		if userSQ {
			u.user = rt.Str("user", clsUserSQ, 1, L)
		} else {
			u.user = rt.Str("user", clsUser, 1, L)
		}
		u.text += u.user + "@"
	case 2:
		if userSQ {
			u.user = rt.Str("user", clsUserSQ, 1, L)
		} else {
			u.user = rt.Str("user", clsUser, 1, L)
		}
		u.pass = rt.Str("pass", clsPass, 1, L)
		u.text += u.user + ":" + u.pass + "@"
	}
	u.host, u.ipv6 = genHost(L, allowV6)
	u.text += u.host
	if rt.Bool("hasport") {
		u.port = genPort()
		u.text += ":" + u.port
	}
	np := rt.Choice("nparams", P+1)
	for i := 0; i < np; i++ {
		switch rt.Choice("pkind", 3) {
		case 0:
			k := rt.Str("pk", clsParam, 1, L)
			v := rt.Str("pv", clsParam, 1, L)
			u.pkeys, u.pvals = append(u.pkeys, k), append(u.pvals, v)
			u.text += ";" + k + "=" + v
		case 1:
			k := rt.Str("pk", clsParam, 1, L)
			u.pkeys, u.pvals = append(u.pkeys, k), append(u.pvals, "")
			u.text += ";" + k
		case 2:
			u.pkeys, u.pvals = append(u.pkeys, "lr"), append(u.pvals, "")
			u.text += ";lr"
		}
	}
	nh := rt.Choice("nheaders", H+1)
	for i := 0; i < nh; i++ {
		k := rt.Str("hk", clsHdr, 1, L)
		v := rt.Str("hv", clsHdr, 1, L)
		u.hkeys, u.hvals = append(u.hkeys, k), append(u.hvals, v)
		if i == 0 {
			u.text += "?"
		} else {
			u.text += "&"
		}
		u.text += k + "=" + v
	}
	return u
}

// genOpaqueURI builds tel: and urn: URIs (with parameters for tel:).
func genOpaqueURI(L, P int) gURI {
	var u gURI
	if rt.Bool("urn") {
		u.scheme = "urn"
		u.text = "urn:" + rt.Str("nid", "alnum+[-]", 1, L) + ":" + rt.Str("nss", "alnum+[-.:%]", 1, L)
		return u
	}
	u.scheme = "tel"
	u.text = "tel:" + rt.Str("num", "[0-9+.()-]", 1, L)
	np := rt.Choice("ntelparams", P+1)
	for i := 0; i < np; i++ {
		u.text += ";" + rt.Str("tk", clsTelParam, 1, L) + "=" + rt.Str("tv", clsTelParam, 1, L)
	}
	return u
}

// genAnyURI: sip/sips or tel/urn. The two sub-domains the property names as known findings
// (IPv6 references, user parts with ';' or '?') are generated in minimal skeletons of their own,
// so that they are covered without multiplying the regular domain.
func genAnyURI(L, P, H int, known bool) gURI {
	k := 2
	if known {
		k = 4
	}
	switch rt.Choice("urikind", k) {
	case 1:
		return genOpaqueURI(L, P)
	case 2:
		return genSIPURI(L, 0, 0, false, true)
	case 3:
		return genSIPURI(L, 0, 0, true, false)
	}
	return genSIPURI(L, P, H, false, false)
}

// genDisplay: none, token(s) followed by a blank, or a quoted string followed by a blank.
func genDisplay(L int) string {
	switch rt.Choice("display", 3) {
	case 1:
		return rt.Str("dtok", "alnum+[-.!%*_+`'~]", 1, L) + " "
	case 2:
		return "\"" + rt.Str("dq", clsQuoted, 0, L) + "\" "
	}
	return ""
}

type gParams struct {
	text string
	keys []string
	vals []string
}

// genHdrParams: 0..Q generic header parameters ";k[=v]".
func genHdrParams(L, Q int) gParams {
	var g gParams
	n := rt.Choice("nhparams", Q+1)
	for i := 0; i < n; i++ {
		k := rt.Str("qk", clsToken, 1, L)
		if rt.Bool("qhasv") {
			v := rt.Str("qv", clsToken, 1, L)
			g.keys, g.vals = append(g.keys, k), append(g.vals, v)
			g.text += ";" + k + "=" + v
		} else {
			g.keys, g.vals = append(g.keys, k), append(g.vals, "")
			g.text += ";" + k
		}
	}
	return g
}

// ---------------------------------------------------------------- reference reader

type refMsg struct {
	ok     bool
	start  string
	names  []string
	values []string
	body   string
}

// refRead splits a relayed message without using any code of the repository. It never scans
// the body: lines are taken one by one until the first empty line.
func refRead(b string) refMsg {
	var m refMsg
	rest := b
	first := true
	for k := 0; k < 40; k++ {
		i := strings.IndexByte(rest, '\n')
		if i < 0 {
			return m
		}
		line := rest[:i]
		rest = rest[i+1:]
		if strings.HasSuffix(line, "\r") {
			line = line[:len(line)-1]
		}
		if len(line) == 0 {
			m.body = rest
			m.ok = true
			return m
		}
		if first {
			m.start = line
			first = false
			continue
		}
		c := strings.IndexByte(line, ':')
		if c < 0 {
			return m
		}
		m.names = append(m.names, line[:c])
		m.values = append(m.values, strings.TrimSpace(line[c+1:]))
	}
	return m
}

// hdrKind classifies a header name (any spelling): "via", "route", "record-route",
// "content-length" or "" for everything the proxy does not own.
func hdrKind(name string) string {
	switch {
	case strings.EqualFold(name, "via") || strings.EqualFold(name, "v"):
		return "via"
	case strings.EqualFold(name, "route"):
		return "route"
	case strings.EqualFold(name, "record-route"):
		return "record-route"
	case strings.EqualFold(name, "content-length") || strings.EqualFold(name, "l"):
		return "content-length"
	}
	return ""
}

// listOf returns the comma-separated elements of all header lines of one kind, in order.
func (m refMsg) listOf(kind string) []string {
	var out []string
	for i, n := range m.names {
		if hdrKind(n) == kind {
			for _, e := range strings.Split(m.values[i], ",") {
				out = append(out, strings.Trim(e, " \t")) // blanks around the commas of a list are not part of its elements
			}
		}
	}
	return out
}

// first returns the value of the first header with that name (any case), "" if absent.
func (m refMsg) first(name string) string {
	for i, n := range m.names {
		if strings.EqualFold(n, name) {
			return m.values[i]
		}
	}
	return ""
}

func itoa(i int) string { return strconv.Itoa(i) }

// ---------------------------------------------------------------- doubles

// vBackend records what a backend is asked to send.
type vBackend struct {
	addr   string
	sent   []string
	fail   bool
	closed int
	// afterClose counts what the backend was asked to send after the pool had closed it
	afterClose int
}

func (b *vBackend) Send(msg *Message) error {
	if b.closed > 0 {
		b.afterClose++
	}
	if b.fail {
		return errVBackend
	}
	bs, err := msg.Bytes()
	if err != nil {
		return err
	}
	b.sent = append(b.sent, string(bs))
	return nil
}
func (b *vBackend) GetAddress() string { return b.addr }
func (b *vBackend) Close()             { b.closed++ }

type vError struct{ s string }

func (e *vError) Error() string { return e.s }

var errVBackend = &vError{"scripted backend failure"}

// vTrans is a listener double.
type vTrans struct {
	proto string
	addr  string
	port  int
}

func (t *vTrans) Start(msgHandler MessageHandler) error              { return nil }
func (t *vTrans) Send(host string, port int, message *Message) error { return nil }
func (t *vTrans) GetProtocol() string                                 { return t.proto }
func (t *vTrans) GetAddress() string                                  { return t.addr }
func (t *vTrans) GetPort() int                                        { return t.port }
func (t *vTrans) IsExit() bool                                        { return false }

// ---------------------------------------------------------------- message text helpers

// parseText runs the repository's decoder on message text.
func parseText(text string) (*Message, error) {
	return ParseMessage(bufio.NewReader(strings.NewReader(text)))
}

// spell returns one spelling of a known header name: 0 canonical, 1 compact (if any), 2 upper, 3 lower,
// 4 compact in upper case.
func spell(name string, k int) string {
	switch k {
	case 4:
		return strings.ToUpper(spell(name, 1))
	case 1:
		switch name {
		case "Via":
			return "v"
		case "From":
			return "f"
		case "To":
			return "t"
		case "Call-ID":
			return "i"
		case "Content-Length":
			return "l"
		case "Contact":
			return "m"
		case "Content-Type":
			return "c"
		}
		return name
	case 2:
		return strings.ToUpper(name)
	case 3:
		return strings.ToLower(name)
	}
	return name
}
