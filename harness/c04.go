package main

// C04 — in-dialog requests stick to the backend that answered the dialog.
// (The termination rules of C15 — BYE answered, NOTIFY terminated — run through the same history.)

import (
	"MODULEPATH/zzverif/faketime"
	"MODULEPATH/zzverif/rt"
)

type dlg struct {
	callID, ftag, ttag string
	furi, turi         string
}

func genDlg(L int) dlg {
	var d dlg
	d.callID = rt.Str("callid", clsCallID, 1, L)
	d.ftag = rt.Str("ftag", clsToken, 1, L)
	d.ttag = rt.Str("ttag", clsToken, 1, L)
	d.furi = "sip:" + rt.Str("fuser", clsUser, 1, L) + "@ua.example.com"
	d.turi = "sip:svc@" + wService
	if rt.Bool("equal-uris") {
		d.turi = d.furi
	}
	return d
}

// backendOf returns the index of the backend that received the k-th message overall, given
// per-backend counts before.
func newSends(w *world, before []int) (which int, count int) {
	which = -1
	for i, b := range w.bs {
		if len(b.sent) > before[i] {
			which = i
			count += len(b.sent) - before[i]
		}
	}
	return
}

func counts(w *world) []int {
	out := make([]int, len(w.bs))
	for i, b := range w.bs {
		out[i] = len(b.sent)
	}
	return out
}

// viaEcho copies the Via lines of a relayed request (what a backend would echo in its response).
func viaEcho(relayed string) string {
	m := refRead(relayed)
	out := ""
	for i := range m.names {
		if hdrKind(m.names[i]) == "via" {
			out += "Via: " + m.values[i] + "\r\n"
		}
	}
	return out
}

func c04Request(method string, d dlg, swapped bool, withToTag bool, extra string) string {
	from := "<" + d.furi + ">;tag=" + d.ftag
	to := "<" + d.turi + ">"
	if withToTag {
		to += ";tag=" + d.ttag
	}
	if swapped {
		from = "<" + d.turi + ">;tag=" + d.ttag
		to = "<" + d.furi + ">;tag=" + d.ftag
	}
	return method + " sip:svc@" + wService + " SIP/2.0\r\nVia: SIP/2.0/UDP 10.0.2.2:5060;branch=z9hG4bKu" + method + "\r\nFrom: " + from + "\r\nTo: " + to +
		"\r\nCall-ID: " + d.callID + "\r\nCSeq: 2 " + method + "\r\n" + extra + "Content-Length: 0\r\n\r\n"
}

// establish runs INVITE -> backend -> response with both tags from the backend's address and
// returns the index of the answering backend (-1 if something failed).
func establish(w *world, d dlg, status int) int {
	inv := c04Request("INVITE", d, false, false, "")
	before := counts(w)
	if !w.deliver(inv, "10.0.2.2", 5060, true) {
		return -1
	}
	b, n := newSends(w, before)
	rt.Assert(n == 1, "the initial INVITE reaches exactly one backend")
	if n != 1 {
		return -1
	}
	// the establishing response may carry an Expires of any value (0 included): the pin lives at least
	// for the dialog timeout whatever it says
	exp := ""
	if rt.Bool("establishing-expires") {
		exp = "Expires: " + itoa(rt.Int("establishing-expires-value", 0, 100000)) + "\r\n"
	}
	resp := "SIP/2.0 " + itoa(status) + " OK\r\n" + viaEcho(w.bs[b].sent[len(w.bs[b].sent)-1]) +
		"From: <" + d.furi + ">;tag=" + d.ftag + "\r\nTo: <" + d.turi + ">;tag=" + d.ttag + "\r\nCall-ID: " + d.callID + "\r\nCSeq: 1 INVITE\r\n" + exp + "Content-Length: 0\r\n\r\n"
	if !w.deliver(resp, "10.0.1."+itoa(b+1), 5060, true) {
		return -1
	}
	return b
}

// disturb puts the proxy into an arbitrary intermediate state: any rotation index ("any amount
// of unrelated traffic") and foreign pins of the shape the proxy itself creates for transactions.
func disturb(w *world, b int, L int) {
	w.rr.index = rt.Int("rotation", 0, 1000000)
	if rt.Bool("foreign-pin") {
		other := w.bs[(b+1)%len(w.bs)]
		key := rt.Str("fmethod", clsToken, 1, L) + "-z9hG4bK" + rt.Str("fbranch", "hex", 12, 12)
		w.p.dialogBasedBackends.AddBackend(key, other, 0)
	}
}

var c04Methods = []string{"ACK", "BYE", "INVITE", "UPDATE", "INFO", "NOTIFY", "SUBSCRIBE", "PRACK", "MESSAGE"}

// VC04_Invite: INVITE answered by backend b (1xx with tag or 2xx) => every later request of the
// dialog, from either party, whatever its method, is delivered to b and to no other.
func VC04_Invite() {
	L, NB := rt.Param("L"), rt.Param("NB")
	w := newWorld(worldOpts{nBackends: NB})
	d := genDlg(L)
	// any response carrying both tags pins the dialog: provisional, success, or a failure (the ACK
	// of a 3xx-6xx answer belongs to the backend that sent it)
	status := rt.Int("status", 101, 699)
	b := establish(w, d, status)
	if b < 0 {
		return
	}
	disturb(w, b, L)
	method := ""
	if mi := rt.Choice("method", len(c04Methods)+1); mi < len(c04Methods) {
		method = c04Methods[mi]
	} else {
		method = rt.Str("xmethod", "[A-Z]", 1, L)
	}
	before := counts(w)
	// headers the proxy looks at elsewhere must not loosen the pin for the request carrying them
	extra := []string{"", "Subscription-State: terminated\r\n", "Subscription-State: terminated;reason=noresource\r\n", "Expires: 0\r\n"}[rt.Choice("extra-header", 4)]
	ok := w.deliver(c04Request(method, d, rt.Bool("from-callee"), true, extra), "10.0.2.2", 5060, true)
	rt.Assert(ok, "in-dialog request decodes")
	got, n := newSends(w, before)
	rt.Assert(n == 1, "the in-dialog request is delivered exactly once")
	rt.Assert(got == b, "the in-dialog request is delivered to the backend that answered the dialog")
	rt.Reach("end")
}

// VC04_NoDialog: requests that belong to no known dialog are load-balanced: they go to the next
// backend of the rotation, whatever pins exist.
func VC04_NoDialog() {
	L, NB := rt.Param("L"), rt.Param("NB")
	w := newWorld(worldOpts{nBackends: NB})
	d := genDlg(L)
	b := establish(w, d, 200)
	if b < 0 {
		return
	}
	idx := rt.Int("rotation", 0, 1000000)
	w.rr.index = idx
	// another dialog: one identifier differs
	d2 := d
	switch rt.Choice("differs", 3) {
	case 0:
		d2.callID = rt.Str("callid2", clsCallID, 1, L)
		rt.Assume(d2.callID != d.callID)
	case 1:
		d2.ftag = rt.Str("ftag2", clsToken, 1, L)
		rt.Assume(d2.ftag != d.ftag)
	case 2:
		d2.ttag = rt.Str("ttag2", clsToken, 1, L)
		rt.Assume(d2.ttag != d.ttag)
	}
	before := counts(w)
	ok := w.deliver(c04Request("BYE", d2, false, true, ""), "10.0.2.2", 5060, true)
	rt.Assert(ok, "request decodes")
	got, n := newSends(w, before)
	rt.Assert(n == 1, "delivered exactly once")
	rt.Assert(got == (idx+1)%NB, "a request of no known dialog goes to the next backend of the rotation")
	rt.Reach("end")
}

// VC04_Subscribe: a SUBSCRIBE issued by a backend and answered by a UA pins the dialog to that
// backend: the UA's NOTIFYs (From/To swapped) reach it.
func VC04_Subscribe() {
	L, NB := rt.Param("L"), rt.Param("NB")
	w := newWorld(worldOpts{nBackends: NB, hosts: map[string]string{"ua.example.com": "10.0.2.2"}})
	d := genDlg(L)
	b := rt.Choice("subscriber", NB)
	// the UA is known to the proxy (it has sent a request before), so the proxy stays on the path
	reg := "REGISTER sip:svc@" + wService + " SIP/2.0\r\nVia: SIP/2.0/UDP 10.0.2.2:5060;branch=z9hG4bKreg\r\nFrom: <sip:ua@example.com>;tag=r\r\nTo: <sip:ua@example.com>\r\nCall-ID: reg\r\nCSeq: 1 REGISTER\r\nContent-Length: 0\r\n\r\n"
	rt.Assert(w.deliver(reg, "10.0.2.2", 5060, false), "REGISTER decodes")
	for _, bk := range w.bs {
		bk.sent = nil
	}
	// the backend's SUBSCRIBE, routed to the UA by Route
	sub := "SUBSCRIBE " + d.furi + " SIP/2.0\r\nVia: SIP/2.0/UDP 10.0.1." + itoa(b+1) + ":5060;branch=z9hG4bKsub\r\nRoute: <sip:10.0.2.2:5060;lr>\r\nFrom: <" + d.turi + ">;tag=" + d.ttag +
		"\r\nTo: <" + d.furi + ">\r\nCall-ID: " + d.callID + "\r\nCSeq: 1 SUBSCRIBE\r\nEvent: presence\r\nContent-Length: 0\r\n\r\n"
	rt.Assert(w.deliver(sub, "10.0.1."+itoa(b+1), 5060, false), "SUBSCRIBE decodes")
	all := w.sentAll()
	rt.Assert(len(all) == 1 && all[0].dest == "udp:10.0.2.2:5060", "SUBSCRIBE relayed to the UA")
	if len(all) != 1 {
		return
	}
	// the UA answers; the response travels back to the backend's address
	resp := "SIP/2.0 200 OK\r\n" + viaEcho(all[0].bytes) + "From: <" + d.turi + ">;tag=" + d.ttag + "\r\nTo: <" + d.furi + ">;tag=" + d.ftag +
		"\r\nCall-ID: " + d.callID + "\r\nCSeq: 1 SUBSCRIBE\r\nExpires: " + itoa(rt.Int("expires", 0, 100000)) + "\r\nContent-Length: 0\r\n\r\n"
	rt.Assert(w.deliver(resp, "10.0.2.2", 5060, false), "response decodes")
	disturb(w, b, L)
	before := counts(w)
	// the NOTIFY that ends the subscription is still a request of the dialog
	state := []string{"", "Subscription-State: active\r\n", "Subscription-State: active;expires=60\r\n", "Subscription-State: terminated\r\n", "Subscription-State: terminated;reason=timeout\r\n"}[rt.Choice("state", 5)]
	ok := w.deliver(c04Request("NOTIFY", d, false, true, "Event: presence\r\n"+state), "10.0.2.2", 5060, true)
	rt.Assert(ok, "NOTIFY decodes")
	got, n := newSends(w, before)
	rt.Assert(n == 1, "the NOTIFY is delivered exactly once")
	rt.Assert(got == b, "the NOTIFY is delivered to the backend that issued the SUBSCRIBE")
	rt.Reach("end")
}

// VC15_Termination (property C15): BYE answered by the backend with any final status, or a
// NOTIFY with Subscription-State terminated, dissolves the pin; requests bearing the dialog's
// identifiers are then load-balanced like new ones. "active" keeps the pin.
func VC15_Termination() {
	L, NB := rt.Param("L"), rt.Param("NB")
	w := newWorld(worldOpts{nBackends: NB})
	d := genDlg(L)
	b := establish(w, d, 200)
	if b < 0 {
		return
	}
	kind := rt.Choice("termination", 3) // 0 BYE answered, 1 NOTIFY terminated, 2 NOTIFY active
	before := counts(w)
	switch kind {
	case 0:
		rt.Assert(w.deliver(c04Request("BYE", d, rt.Bool("from-callee"), true, ""), "10.0.2.2", 5060, true), "BYE decodes")
		got, n := newSends(w, before)
		rt.Assert(n == 1 && got == b, "the BYE itself still reaches the pinned backend")
		if n != 1 || got != b {
			return
		}
		status := rt.Int("bye-status", 200, 699)
		resp := "SIP/2.0 " + itoa(status) + " X\r\n" + viaEcho(w.bs[b].sent[len(w.bs[b].sent)-1]) + "From: <" + d.furi + ">;tag=" + d.ftag + "\r\nTo: <" + d.turi + ">;tag=" + d.ttag +
			"\r\nCall-ID: " + d.callID + "\r\nCSeq: 2 BYE\r\nContent-Length: 0\r\n\r\n"
		rt.Assert(w.deliver(resp, "10.0.1."+itoa(b+1), 5060, true), "BYE response decodes")
	case 1, 2:
		state := "Subscription-State: terminated\r\n"
		if kind == 2 {
			state = "Subscription-State: active\r\n"
		}
		rt.Assert(w.deliver(c04Request("NOTIFY", d, rt.Bool("from-callee"), true, state), "10.0.2.2", 5060, true), "NOTIFY decodes")
		got, n := newSends(w, before)
		rt.Assert(n == 1 && got == b, "the NOTIFY itself still reaches the pinned backend")
		if n == 1 && got == b && rt.Bool("notify-answered") {
			// the backend answers the NOTIFY (its response carries no Subscription-State): a terminated dialog stays dissolved
			st := rt.Int("notify-status", 200, 299)
			resp := "SIP/2.0 " + itoa(st) + " OK\r\n" + viaEcho(w.bs[b].sent[len(w.bs[b].sent)-1]) + "From: <" + d.furi + ">;tag=" + d.ftag + "\r\nTo: <" + d.turi + ">;tag=" + d.ttag +
				"\r\nCall-ID: " + d.callID + "\r\nCSeq: 2 NOTIFY\r\nContent-Length: 0\r\n\r\n"
			rt.Assert(w.deliver(resp, "10.0.1."+itoa(b+1), 5060, true), "NOTIFY response decodes")
		}
	}
	// probe: a later request with the dialog's identifiers; rotation chosen so that the next
	// load-balanced target differs from b
	idx := rt.Int("rotation", 0, 1000000)
	rt.Assume((idx+1)%NB != b)
	w.rr.index = idx
	before = counts(w)
	rt.Assert(w.deliver(c04Request("INFO", d, false, true, ""), "10.0.2.2", 5060, true), "probe decodes")
	got, n := newSends(w, before)
	rt.Assert(n == 1, "probe delivered exactly once")
	if kind == 2 {
		rt.Assert(got == b, "Subscription-State active keeps the pin")
	} else {
		rt.Assert(got == (idx+1)%NB, "after termination the dialog's requests are load-balanced like new ones")
	}
	rt.Reach("end")
}

// VC15_Refresh: every establishing response (re)starts the pin's lifetime. A first response with both tags
// (18x or 2xx) pins the dialog; later, still inside that lifetime, the same backend sends another establishing
// response of the dialog — the 2xx after the 18x, a retransmitted 2xx, or the 2xx of a re-INVITE — with or without
// Expires. From that second response on the pin is honoured for max(dialog timeout, its Expires).
func VC15_Refresh() {
	L, NB := rt.Param("L"), rt.Param("NB")
	T := rt.Int("T", 1, 3600)
	w := newWorld(worldOpts{nBackends: NB, dialogTimeout: int64(T)})
	d := genDlg(L)
	b := establish(w, d, rt.Int("status1", 180, 200))
	if b < 0 {
		return
	}
	dt1 := rt.Int("dt1_s", 0, 3600)
	rt.Assume(dt1 < T) // the first pin is certainly still alive
	faketime.Advance(faketime.Duration(dt1) * 1000000000)
	e2, exp := 0, ""
	if rt.Bool("second-expires") {
		e2 = rt.Int("second-expires-value", 0, 100000)
		exp = "Expires: " + itoa(e2) + "\r\n"
	}
	var resp string
	if rt.Bool("re-invite") {
		// a re-INVITE of the dialog (follows the pin) and its 2xx
		before := counts(w)
		rt.Assert(w.deliver(c04Request("INVITE", d, rt.Bool("from-callee"), true, ""), "10.0.2.2", 5060, true), "re-INVITE decodes")
		got, n := newSends(w, before)
		rt.Assert(n == 1 && got == b, "the re-INVITE follows the pin")
		if n != 1 || got != b {
			return
		}
		m := refRead(w.bs[b].sent[len(w.bs[b].sent)-1])
		resp = "SIP/2.0 200 OK\r\n" + viaEcho(w.bs[b].sent[len(w.bs[b].sent)-1]) + "From: " + m.first("from") + "\r\nTo: " + m.first("to") +
			"\r\nCall-ID: " + d.callID + "\r\nCSeq: 2 INVITE\r\n" + exp + "Content-Length: 0\r\n\r\n"
	} else {
		resp = "SIP/2.0 200 OK\r\n" + viaEcho(w.bs[b].sent[len(w.bs[b].sent)-1]) +
			"From: <" + d.furi + ">;tag=" + d.ftag + "\r\nTo: <" + d.turi + ">;tag=" + d.ttag + "\r\nCall-ID: " + d.callID + "\r\nCSeq: 1 INVITE\r\n" + exp + "Content-Length: 0\r\n\r\n"
	}
	rt.Assert(w.deliver(resp, "10.0.1."+itoa(b+1), 5060, true), "second establishing response decodes")
	life := T
	if e2 > T {
		life = e2
	}
	dt2 := rt.Int("dt2_s", 0, 100000)
	rt.Assume(dt2 < life)
	faketime.Advance(faketime.Duration(dt2) * 1000000000)
	idx := rt.Int("rotation", 0, 1000000)
	rt.Assume((idx+1)%NB != b)
	w.rr.index = idx
	before := counts(w)
	rt.Assert(w.deliver(c04Request("INFO", d, false, true, ""), "10.0.2.2", 5060, true), "probe decodes")
	got, n := newSends(w, before)
	rt.Assert(n == 1, "probe delivered exactly once")
	rt.Assert(got == b, "the pin is honoured for max(dialog timeout, Expires) counted from the latest establishing response")
	rt.Reach("end")
}

// VC04_BusyTable: "no matter how many unrelated requests have advanced the rotation in between": every request handed to
// a backend leaves a transaction binding in the same table that holds the dialog pins. After the dialog is established the
// table receives F further bindings of the shape the proxy creates (newer than the pin, none of them expired), then more
// unrelated requests pass through the real pipeline; the dialog's next request still reaches the pinned backend.
func VC04_BusyTable() {
	L, NB, F := rt.Param("L"), rt.Param("NB"), rt.Param("F")
	w := newWorld(worldOpts{nBackends: NB})
	d := genDlg(L)
	b := establish(w, d, 200)
	if b < 0 {
		return
	}
	other := w.bs[(b+1)%NB]
	tbl := w.p.dialogBasedBackends
	rt.Unwind(2*F + 100) // loops of the repository over the table may run once or twice per entry
	for i := 0; i < F; i++ {
		if i%1000 == 0 {
			faketime.Advance(faketime.Millisecond)
		}
		tbl.backends["OPTIONS-z9hG4bKload"+itoa(i)] = &ExpireBackend{backend: other, expire: faketime.Now().Add(tbl.timeout)}
	}
	for i := 0; i < 2; i++ {
		opt := "OPTIONS sip:svc@" + wService + " SIP/2.0\r\nVia: SIP/2.0/UDP 10.0.2.7:5060;branch=z9hG4bKun" + itoa(i) + "\r\nFrom: <sip:u@example.com>;tag=u" + itoa(i) +
			"\r\nTo: <sip:svc@" + wService + ">\r\nCall-ID: unrelated" + itoa(i) + "\r\nCSeq: 1 OPTIONS\r\nContent-Length: 0\r\n\r\n"
		rt.Assert(w.deliver(opt, "10.0.2.7", 5060, true), "unrelated request decodes")
	}
	idx := rt.Int("rotation", 0, 1000000)
	rt.Assume((idx+1)%NB != b)
	w.rr.index = idx
	before := counts(w)
	method := []string{"BYE", "UPDATE"}[rt.Choice("method", 2)]
	rt.Assert(w.deliver(c04Request(method, d, rt.Bool("from-callee"), true, ""), "10.0.2.2", 5060, true), "in-dialog request decodes")
	got, n := newSends(w, before)
	rt.Assert(n == 1, "the in-dialog request is delivered exactly once")
	rt.Assert(got == b, "the pin survives any amount of unrelated traffic within its lifetime")
	rt.Reach("end")
}
