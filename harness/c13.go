package main

// C13 — Route handling: consume own entry only, keep or strip next hop as configured.

import (
	"MODULEPATH/zzverif/rt"
)

// genRouteRest: a further Route entry with the decorations the property lists.
func genRouteRest(L int, i int) string {
	e := ""
	if rt.Param("RD") == 0 {
		return "<sip:" + rt.Str("ruser", clsUser, 1, L) + "@10.0.3." + itoa(10+i) + ";lr>"
	}
	switch rt.Choice("rdisplay", 3) {
	case 1:
		e = rt.Str("rdtok", "alnum", 1, L) + " "
	case 2:
		e = "\"" + rt.Str("rdq", clsQuoted, 0, L) + "\" "
	}
	e += "<sip:"
	if rt.Bool("ruserinfo") {
		e += rt.Str("ruser", clsUser, 1, L) + "@"
	}
	e += "10.0.3." + itoa(10+i)
	if rt.Bool("rport") {
		e += ":" + genPort()
	}
	e += ";lr"
	switch rt.Choice("ruriparams", 3) {
	case 1:
		e += ";" + rt.Str("rpk", clsParam, 1, L) + "=" + rt.Str("rpv", clsParam, 1, L)
	case 2:
		e += ";" + rt.Str("rpk", clsParam, 1, L)
	}
	e += ">"
	if rt.Bool("rhdrparam") {
		e += ";" + rt.Str("rhk", clsToken, 1, L) + "=" + rt.Str("rhv", clsToken, 1, L)
	}
	return e
}

// VC13_Route: Route sets of 0..N entries in any layout; first entry by the property's kinds.
func VC13_Route() {
	L, N := rt.Param("L"), rt.Param("N")
	keep := rt.Bool("keep-next-hop")
	w := newWorld(worldOpts{nBackends: 1, keepNextHop: keep,
		hosts: map[string]string{"proxy.example.com": wListenAddr, "other.example.com": "10.0.0.8"}})
	n := rt.Choice("nroute", N+1)
	var entries []string
	ownFirst := false
	if n > 0 {
		switch rt.Choice("first", 7) {
		case 0:
			entries, ownFirst = append(entries, "<sip:"+wListenAddr+":5060;lr>"), true
		case 1:
			entries, ownFirst = append(entries, "<sip:proxy.example.com:5060;lr>"), true
		case 2:
			entries, ownFirst = append(entries, "<sip:proxy.example.com;lr>"), true
		case 3:
			entries = append(entries, "<sip:"+wListenAddr+":5070;lr>")
		case 4:
			entries = append(entries, "<sip:10.0.3.1:5060;lr>")
		case 5:
			entries = append(entries, "<sip:other.example.com:5060;lr>")
		case 6:
			entries = append(entries, genRouteRest(L, 0))
		}
		for i := 1; i < n; i++ {
			entries = append(entries, genRouteRest(L, i))
		}
	}
	head := "Via: SIP/2.0/UDP 10.0.2.2:5060;branch=z9hG4bKa\r\n"
	for i, e := range entries {
		if i > 0 && rt.Bool("comma") {
			head = head[:len(head)-2] + "," + e + "\r\n"
		} else {
			head += []string{"Route", "ROUTE", "route"}[rt.Choice("routename", 3)] + ": " + e + "\r\n"
		}
	}
	text := "INVITE sip:bob@" + wService + " SIP/2.0\r\n" + head +
		"From: <sip:alice@example.com>;tag=a\r\nTo: <sip:bob@" + wService + ">\r\nCall-ID: c1\r\nCSeq: 1 INVITE\r\nContent-Length: 0\r\n\r\n"
	ok := w.deliver(text, "10.0.2.2", 5060, true)
	rt.Assert(ok, "request decodes")
	if !ok {
		return
	}
	// expected Route list of the relayed request
	want := entries
	if ownFirst {
		want = want[1:]
	}
	if len(want) > 0 && !keep {
		want = want[1:]
	}
	sent := w.sentAll()
	rt.Assert(len(sent) == 1, "the request is relayed exactly once")
	if len(sent) != 1 {
		return
	}
	got := refRead(sent[0].bytes).listOf("route")
	rt.Assert(len(got) == len(want), "own entry consumed iff it designates the listener; next-hop entry kept or stripped as configured")
	if len(got) == len(want) {
		for i := range want {
			rt.Assert(got[i] == want[i], "further Route entries relayed unchanged and in order")
		}
	}
	rt.Observe("dest", sent[0].dest)
	rt.Reach("end")
}
