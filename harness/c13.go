package main

// C13 — Route handling: consume own entry only, keep or strip next hop as configured.

import (
	"MODULEPATH/zzverif/fakenet"
	"MODULEPATH/zzverif/rt"
)

// genRouteRest: a further Route entry with the decorations the property lists.
func genRouteRest(L int, i int) string {
	e := ""
	if rt.Param("RD") == 2 {
		// long route sets: the layout is what varies, the entries are fixed
		return "<sip:u" + itoa(i) + "@10.0.3." + itoa(10+i) + ";lr>"
	}
	if rt.Param("RD") == 0 {
		// an entry need not carry lr (a strict router): the proxy relays it as it is all the same
		lr := ";lr"
		if i <= 1 {
			lr = []string{";lr", "", ";transport=udp"}[rt.Choice("rest-lr", 3)]
		}
		return "<sip:" + rt.Str("ruser", clsUser, 1, L) + "@10.0.3." + itoa(10+i) + lr + ">"
	}
	switch rt.Choice("rdisplay", 3) {
	case 1:
		e = rt.Str("rdtok", "alnum", 1, L) + " "
	case 2:
		e = "\"" + rt.Str("rdq", clsQuoted, 0, L) + "\" "
	}
	e += "<sip:"
	if rt.Bool("ruserinfo") {
		e += rt.Str("ruser", clsUser, 1, L) + "@"
	}
	e += "10.0.3." + itoa(10+i)
	if rt.Bool("rport") {
		e += ":" + genPort()
	}
	e += ";lr"
	switch rt.Choice("ruriparams", 3) {
	case 1:
		e += ";" + rt.Str("rpk", clsParam, 1, L) + "=" + rt.Str("rpv", clsParam, 1, L)
	case 2:
		e += ";" + rt.Str("rpk", clsParam, 1, L)
	}
	e += ">"
	if rt.Bool("rhdrparam") {
		e += ";" + rt.Str("rhk", clsToken, 1, L) + "=" + rt.Str("rhv", clsToken, 1, L)
	}
	return e
}

// VC13_Route: Route sets of 0..N entries in any layout; first entry by the property's kinds.
func VC13_Route() {
	L, N := rt.Param("L"), rt.Param("N")
	keep := rt.Bool("keep-next-hop")
	w := newWorld(worldOpts{nBackends: 1, keepNextHop: keep,
		hosts: map[string]string{"proxy.example.com": wListenAddr, "other.example.com": "10.0.0.8"}})
	n := rt.Choice("nroute", N+1)
	firstKinds := 7
	if rt.Param("RD") == 2 {
		// long route sets (property: up to 6 entries): N-1 or N entries, first entry the listener's address or a foreign hop
		n = N - rt.Choice("nroute", 2)
		firstKinds = 2
	}
	var entries []string
	ownFirst := false
	if n > 0 {
		fk := rt.Choice("first", firstKinds)
		if firstKinds == 2 && fk == 1 {
			fk = 4
		}
		switch fk {
		case 0:
			entries, ownFirst = append(entries, "<sip:"+wListenAddr+":5060;lr>"), true
		case 1:
			entries, ownFirst = append(entries, "<sip:proxy.example.com:5060;lr>"), true
		case 2:
			entries, ownFirst = append(entries, "<sip:proxy.example.com;lr>"), true
		case 3:
			entries = append(entries, "<sip:"+wListenAddr+":5070;lr>")
		case 4:
			entries = append(entries, "<sip:10.0.3.1:5060"+[]string{";lr", "", ";transport=udp"}[rt.Choice("first-lr", 3)]+">")
		case 5:
			entries = append(entries, "<sip:other.example.com:5060;lr>")
		case 6:
			entries = append(entries, genRouteRest(L, 0))
		}
		for i := 1; i < n; i++ {
			entries = append(entries, genRouteRest(L, i))
		}
	}
	head := "Via: SIP/2.0/UDP 10.0.2.2:5060;branch=z9hG4bKa\r\n"
	for i, e := range entries {
		if i > 0 && rt.Bool("comma") {
			sep := ", "
			if rt.Param("RD") != 2 {
				sep = []string{",", ", ", " ,\t "}[rt.Choice("comma-blanks", 3)]
			}
			head = head[:len(head)-2] + sep + e + "\r\n"
		} else {
			name := "Route"
			if rt.Param("RD") != 2 {
				name = []string{"Route", "ROUTE", "route"}[rt.Choice("routename", 3)]
			}
			head += name + ": " + e + "\r\n"
		}
	}
	text := "INVITE sip:bob@" + wService + " SIP/2.0\r\n" + head +
		"From: <sip:alice@example.com>;tag=a\r\nTo: <sip:bob@" + wService + ">\r\nCall-ID: c1\r\nCSeq: 1 INVITE\r\nContent-Length: 0\r\n\r\n"
	ok := w.deliver(text, "10.0.2.2", 5060, true)
	rt.Assert(ok, "request decodes")
	if !ok {
		return
	}
	// expected Route list of the relayed request
	want := entries
	if ownFirst {
		want = want[1:]
	}
	if len(want) > 0 && !keep {
		want = want[1:]
	}
	sent := w.sentAll()
	rt.Assert(len(sent) == 1, "the request is relayed exactly once")
	if len(sent) != 1 {
		return
	}
	got := refRead(sent[0].bytes).listOf("route")
	rt.Assert(len(got) == len(want), "own entry consumed iff it designates the listener; next-hop entry kept or stripped as configured")
	if len(got) == len(want) {
		for i := range want {
			rt.Assert(got[i] == want[i], "further Route entries relayed unchanged and in order")
		}
	}
	rt.Observe("dest", sent[0].dest)
	rt.Reach("end")
}

// VC13_Wiring: the keep-next-hop-route setting as the configuration file spells it, through the
// real startProxy: a setting that says yes (true / yes / on / 1, any case) keeps the entry naming
// the next hop, one that says no (false / no / off / 0, or nothing) strips it.
func VC13_Wiring() {
	fakenet.Reset()
	setting, keep := "", false
	switch rt.Choice("setting", 3) {
	case 1:
		setting, keep = rt.StrRe("yes-word", "[tT][rR][uU][eE]|[yY][eE][sS]|[oO][nN]|1", 4), true
	case 2:
		setting = rt.StrRe("no-word", "[fF][aA][lL][sS][eE]|[nN][oO]|[oO][fF][fF]|0", 5)
	}
	cfg := ProxyConfig{Name: wService, KeepNextHopRoute: setting}
	cfg.Listens = append(cfg.Listens, struct {
		Address            string
		UDPPort            int      `yaml:"udp-port,omitempty"`
		TCPPort            int      `yaml:"tcp-port,omitempty"`
		BackendLocalAdress string   `yaml:"backend-local-address,omitempty"`
		BackendLocalPort   int      `yaml:"backend-local-port,omitempty"`
		Backends           []string `yaml:",omitempty"`
		Dests              []string `yaml:",omitempty"`
		NoReceived         bool     `yaml:"no-received,omitempty"`
		defRoute           bool     `yaml:"def-route,omitempty"`
		MustRecordRoute    bool     `yaml:"must-record-route,omitempty"`
	}{Address: wListenAddr, UDPPort: 5060, BackendLocalAdress: wListenAddr, BackendLocalPort: 5080,
		Backends: []string{"udp://10.0.1.1:5060"}})
	err := startProxy(cfg, NewPreConfigRoute(), NewPreConfigHostResolver())
	rt.Assert(err == nil, "proxy starts")
	if err != nil {
		return
	}
	rt.Quiesce()
	var sock *fakenet.UDPConn
	for _, u := range fakenet.UDPConns {
		if u.LocalAddr().String() == wListenAddr+":5060" {
			sock = u
		}
	}
	rt.Assert(sock != nil, "UDP listener socket created")
	if sock == nil {
		return
	}
	own, next, further := "<sip:"+wListenAddr+":5060;lr>", "<sip:10.0.3.5:5070;lr>", "<sip:10.0.3.6;lr>"
	text := "INVITE sip:bob@" + wService + " SIP/2.0\r\nVia: SIP/2.0/UDP 10.0.2.2:5060;branch=z9hG4bKa\r\nRoute: " + own + "," + next + "," + further +
		"\r\nFrom: <sip:alice@example.com>;tag=a\r\nTo: <sip:bob@" + wService + ">\r\nCall-ID: c1\r\nCSeq: 1 INVITE\r\nContent-Length: 0\r\n\r\n"
	sock.Deliver("10.0.2.2:5060", []byte(text))
	rt.Quiesce()
	var out []string
	for _, d := range fakenet.Sent {
		if d.Remote == "10.0.3.5:5070" {
			out = append(out, string(d.Payload))
		}
	}
	rt.Assert(len(out) == 1 && len(fakenet.Sent) == 1, "the request goes to the next hop of its Route set, once")
	if len(out) != 1 {
		return
	}
	got := refRead(out[0]).listOf("route")
	if keep {
		rt.Assert(len(got) == 2 && got[0] == next && got[1] == further, "setting says yes: the entry naming the next hop is relayed")
	} else {
		rt.Assert(len(got) == 1 && got[0] == further, "setting says no (or is absent): the entry naming the next hop is stripped")
	}
	rt.Observe("setting", setting)
	rt.Reach("end")
}

// VC13_TwoTransports: one listener with different UDP and TCP ports; the same kind of first Route
// entry arrives over both transports, one request after the other, in either order. Whether the
// entry designates the receiving listener is decided per request: same port as the transport the
// request arrived on (and the listener's address or an alias of it) — earlier traffic must not matter.
func VC13_TwoTransports() {
	w := newWorld(worldOpts{nBackends: 1, hosts: map[string]string{"proxy.example.com": wListenAddr}})
	udp := w.listener // UDP 10.0.0.9:5060
	tcp := &vTrans{proto: "TCP", addr: wListenAddr, port: 5070}
	w.p.items[0].transports = append(w.p.items[0].transports, tcp)
	host := []string{wListenAddr, "proxy.example.com"}[rt.Choice("first-host", 2)]
	entryPort := []int{5060, 5070}[rt.Choice("first-port", 2)]
	first := "<sip:" + host + ":" + itoa(entryPort) + ";lr>"
	next := "<sip:10.0.3.5:5090;lr>"
	order := [][]*vTrans{{udp, tcp}, {tcp, udp}, {udp, udp}}[rt.Choice("arrival-order", 3)]
	for i, tr := range order {
		text := "INVITE sip:bob@" + wService + " SIP/2.0\r\nVia: SIP/2.0/" + tr.proto + " 10.0.2.2:5060;branch=z9hG4bKt" + itoa(i) + "\r\nRoute: " + first + "," + next +
			"\r\nFrom: <sip:alice@example.com>;tag=a\r\nTo: <sip:bob@" + wService + ">\r\nCall-ID: t" + itoa(i) + "\r\nCSeq: 1 INVITE\r\nContent-Length: 0\r\n\r\n"
		msg, err := parseText(text)
		rt.Assert(err == nil, "request decodes")
		if err != nil {
			return
		}
		mark := len(fakenet.Sent)
		w.p.HandleRawMessage(NewRawMessage("10.0.2.2", 5060, tr, true, msg))
		rt.Quiesce()
		own := entryPort == tr.port
		// own entry consumed: the request goes to the next hop (10.0.3.5:5090) with that entry stripped (keep off);
		// otherwise the first entry IS the next hop: the request goes to the listener address itself
		dest := wListenAddr + ":" + itoa(entryPort)
		if own {
			dest = "10.0.3.5:5090"
		}
		out := sentTo(dest, mark)
		rt.Assert(len(out) == 1 && len(fakenet.Sent) == mark+1, "two transports: the first Route entry is the listener's own iff it names the port of the transport the request arrived on")
		if len(out) == 1 {
			got := refRead(out[0]).listOf("route")
			if own {
				rt.Assert(len(got) == 0, "own entry consumed and next-hop entry stripped")
			} else {
				rt.Assert(len(got) == 1 && got[0] == next, "foreign first entry (the next hop) stripped, the further entry relayed")
			}
		}
	}
	rt.Reach("end")
}
