package main

// A proxy "world" for pipeline harnesses: one real Proxy (struct literal, real message loop
// goroutine), listener doubles, backend doubles, fakenet for everything that leaves by
// client transports.

import (
	"strings"

	"MODULEPATH/zzverif/fakenet"
	"MODULEPATH/zzverif/faketime"
	"MODULEPATH/zzverif/rt"
)

const (
	wListenAddr = "10.0.0.9"
	wListenPort = 5060
	wService    = "svc.example.com"
)

type worldOpts struct {
	name            string // service names (comma separated), default wService
	keepNextHop     bool
	mustRecordRoute bool
	nBackends       int
	dialogTimeout   int64
	tcpListener     bool
	hosts           map[string]string // static host table
	routes          [][3]string       // protocol, dest pattern, next hop
	holdLoop        bool              // do not start the message loop yet (messages queue up as under load); start it with startLoop
}

type world struct {
	p        *Proxy
	listener *vTrans
	bs       []*vBackend
	rr       *RoundRobinBackend
}

func newWorld(o worldOpts) *world {
	fakenet.Reset()
	faketime.SetClock(1000000000000)
	fakenet.DialHook = func(network, address string) (fakenet.Conn, error) {
		return fakenet.NewTCPConn(wListenAddr+":40000", address), nil
	}
	if o.name == "" {
		o.name = wService
	}
	if o.dialogTimeout == 0 {
		o.dialogTimeout = 1200
	}
	w := &world{}
	proto := "UDP"
	if o.tcpListener {
		proto = "TCP"
	}
	w.listener = &vTrans{proto: proto, addr: wListenAddr, port: wListenPort}
	resolver := NewPreConfigHostResolver()
	for k, v := range o.hosts {
		resolver.AddHostIP(k, v)
	}
	routes := NewPreConfigRoute()
	for _, r := range o.routes {
		routes.AddRouteItem(r[0], r[1], r[2])
	}
	w.rr = NewRoundRobinBackend()
	var p *Proxy
	if !o.holdLoop {
		// the real constructor (it starts the message loop itself)
		p = NewProxy(o.name, o.dialogTimeout, wListenAddr, o.keepNextHop, routes, resolver, NewSelfLearnRoute(), true, o.mustRecordRoute)
	} else {
		// the same object with its loop not started yet (startLoop does that): messages queue up as under load
		p = &Proxy{myName: NewMyName(o.name),
			localAddress:         wListenAddr,
			keepNextHopRoute:     o.keepNextHop,
			preConfigRoute:       routes,
			resolver:             resolver,
			items:                make([]*ProxyItem, 0),
			clientTransMgr:       NewClientTransportMgr(func(conn fakenet.Conn) {}),
			selfLearnRoute:       NewSelfLearnRoute(),
			mustRecordRoute:      o.mustRecordRoute,
			msgChannel:           make(chan *RawMessage, 100),
			backendChangeChannel: make(chan *BackendChangeEvent, 100),
			connAcceptedChannel:  make(chan fakenet.Conn),
			backends:             make(map[string]*BackendWithParent),
			dialogBasedBackends:  NewDialogBasedBackend(o.dialogTimeout)}
	}
	item := &ProxyItem{transports: []ServerTransport{w.listener}, backend: w.rr, msgHandler: p}
	p.AddItem(item)
	w.p = p
	for i := 0; i < o.nBackends; i++ {
		b := &vBackend{addr: "10.0.1." + itoa(i+1) + ":5060"}
		w.bs = append(w.bs, b)
		w.rr.AddBackend(b)
	}
	rt.Quiesce()
	return w
}

// startLoop starts the message loop of a world created with holdLoop.
func (w *world) startLoop() {
	go w.p.receiveAndProcessMessage()
	rt.Quiesce()
}

// deliver decodes text with the repository's decoder and hands it to the proxy's message loop
// as if it had arrived from peerAddr:peerPort on the listener. Returns false if undecodable.
func (w *world) deliver(text, peerAddr string, peerPort int, receivedSupport bool) bool {
	msg, err := parseText(text)
	if err != nil {
		return false
	}
	faketime.Advance(faketime.Millisecond) // time passes between messages
	w.p.HandleRawMessage(NewRawMessage(peerAddr, peerPort, w.listener, receivedSupport, msg))
	rt.Quiesce()
	return true
}

// deliverTCP is deliver for a message that arrived on a TCP connection.
func (w *world) deliverTCP(text string, conn *fakenet.TCPConn, peerAddr string, peerPort int, receivedSupport bool) bool {
	msg, err := parseText(text)
	if err != nil {
		return false
	}
	raw := NewRawMessage(peerAddr, peerPort, w.listener, receivedSupport, msg)
	raw.TcpConn = conn
	faketime.Advance(faketime.Millisecond) // time passes between messages
	w.p.HandleRawMessage(raw)
	rt.Quiesce()
	return true
}

// sentItem is one message that left the proxy.
type sentItem struct {
	dest  string // "backend:<addr>", "udp:<ip:port>", "tcp:<ip:port>"
	bytes string
}

// sentAll lists everything that left the proxy so far, by channel.
func (w *world) sentAll() []sentItem {
	var out []sentItem
	for _, b := range w.bs {
		for _, s := range b.sent {
			out = append(out, sentItem{"backend:" + b.addr, s})
		}
	}
	for _, d := range fakenet.Sent {
		out = append(out, sentItem{"udp:" + d.Remote, string(d.Payload)})
	}
	for _, c := range fakenet.Conns {
		for _, wr := range c.Written {
			out = append(out, sentItem{"tcp:" + c.RemoteAddr().String(), string(wr)})
		}
	}
	return out
}

// maskBranch replaces the proxy-generated branch of the topmost Via (12 hex digits after the
// magic cookie) by '*', so that observations do not depend on the random source.
func maskBranch(s string) string {
	i := strings.Index(s, ";branch=z9hG4bK")
	if i < 0 {
		return s
	}
	j := i + len(";branch=z9hG4bK")
	if len(s) < j+12 {
		return s
	}
	return s[:j] + "************" + s[j+12:]
}
