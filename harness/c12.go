package main

// C12 — responses to TCP requests return on the connection the request used.

import (
	"MODULEPATH/zzverif/fakenet"
	"MODULEPATH/zzverif/rt"
)

var c12Methods = []string{"INVITE", "OPTIONS", "REGISTER", "SUBSCRIBE", "UPDATE", "INFO", "PRACK", "MESSAGE"}

type c12Txn struct {
	conn    int
	callID  string
	relayed string
	method  string
}

// VC12_SameConnection: NC connections from one address, NT transactions each; requests and the
// backend's responses (optionally a 1xx before the final one) interleaved in generated orders.
func VC12_SameConnection() {
	L, NC, NT := rt.Param("L"), rt.Param("NC"), rt.Param("NT")
	support := rt.Bool("received-support")
	w := newWorld(worldOpts{nBackends: 1, tcpListener: true, hosts: map[string]string{"ua.example.com": "10.0.2.2"}})
	sentByKind := rt.Choice("sent-by", 4) // 0 same IP sent-by on all connections, 1 different ports, 2 by name (same on all), 3 a private address behind a NAT
	var conns []*fakenet.TCPConn
	var ports []int
	for c := 0; c < NC; c++ {
		port := 40000 + c
		ports = append(ports, port)
		conns = append(conns, fakenet.NewTCPConn(wListenAddr+":5060", "10.0.2.2:"+itoa(port)))
	}
	rport := rt.Bool("rport-requested")
	var txns []c12Txn
	var branches []string
	// requests: connection-major or transaction-major order
	major := rt.Bool("txn-major")
	for a := 0; a < NC*NT; a++ {
		c, t := a/NT, a%NT
		if major {
			c, t = a%NC, a/NC
		}
		sentBy := "10.0.2.2:5060"
		switch sentByKind {
		case 1:
			sentBy = "10.0.2.2:" + itoa(6000+c)
		case 2:
			sentBy = "ua.example.com:5060"
		case 3:
			sentBy = "192.168.7.7:5060" // a private address behind a NAT: not the address the connection comes from
		}
		if rport {
			sentBy += ";rport"
		}
		method := c12Methods[rt.Choice("method", rt.Param("M"))]
		callID := "c" + itoa(c) + "t" + itoa(t)
		// pairwise distinct branches: the magic cookie followed by a symbolic value
		branch := "z9hG4bK" + rt.Str("br", "[0-9a-fzhGK.-]", 1, L+2)
		for _, b := range branches {
			rt.Assume(b != branch)
		}
		branches = append(branches, branch)
		req := method + " sip:svc@" + wService + " SIP/2.0\r\nVia: SIP/2.0/TCP " + sentBy + ";branch=" + branch + "\r\nFrom: <sip:u" + itoa(c) + "@example.com>;tag=f\r\nTo: <sip:svc@" + wService +
			">\r\nCall-ID: " + callID + "\r\nCSeq: 1 " + method + "\r\nContent-Length: 0\r\n\r\n"
		before := len(w.bs[0].sent)
		rt.Assert(w.deliverTCP(req, conns[c], "10.0.2.2", ports[c], support), "request decodes")
		rt.Assert(len(w.bs[0].sent) == before+1, "request relayed to the backend")
		if len(w.bs[0].sent) != before+1 {
			return
		}
		txns = append(txns, c12Txn{conn: c, callID: callID, relayed: w.bs[0].sent[before], method: method})
	}
	// responses in forward or reverse order, each optionally preceded by a provisional one
	reverse := rt.Bool("responses-reversed")
	for k := range txns {
		x := txns[k]
		if reverse {
			x = txns[len(txns)-1-k]
		}
		statuses := []int{200}
		if rt.Bool("provisional-first") {
			statuses = []int{180, 200}
		}
		for _, st := range statuses {
			resp := "SIP/2.0 " + itoa(st) + " OK\r\n" + viaEcho(x.relayed) + "From: <sip:u" + itoa(x.conn) + "@example.com>;tag=f\r\nTo: <sip:svc@" + wService + ">;tag=t\r\nCall-ID: " + x.callID +
				"\r\nCSeq: 1 " + x.method + "\r\nContent-Length: 0\r\n\r\n"
			written := make([]int, NC)
			for c := range conns {
				written[c] = len(conns[c].Written)
			}
			rt.Assert(w.deliver(resp, "10.0.1.1", 5060, support), "response decodes")
			for c := range conns {
				if c == x.conn {
					rt.Assert(len(conns[c].Written) == written[c]+1, "the response is written to the connection its request arrived on")
					if len(conns[c].Written) == written[c]+1 {
						m := refRead(string(conns[c].Written[written[c]]))
						cid := ""
						for i, n := range m.names {
							if n == "Call-ID" {
								cid = m.values[i]
							}
						}
						rt.Assert(cid == x.callID, "and it is that transaction's response")
					}
				} else {
					rt.Assert(len(conns[c].Written) == written[c], "no other client's connection receives it")
				}
			}
			rt.Assert(totalDials() == 0 && len(fakenet.Conns) == NC, "no new connection is opened for a response")
		}
	}
	rt.Reach("end")
}

// VC12_Backlog: the property's largest shape — NC connections x NT transactions (8 x 20), all announcing the same sent-by,
// every request relayed before any response arrives (responses delayed), then the responses in the order given by
// "oldest-first": each response (a provisional one first for the oldest transaction) is written to the connection its
// request arrived on, and no connection is opened. Branches are concrete and pairwise distinct; what is symbolic is small.
func VC12_Backlog() {
	NC, NT := rt.Param("NC"), rt.Param("NT")
	support := rt.Bool("received-support")
	rt.DistinctUUIDs()       // 160 generated branches: collisions between them are not explored here (VC12_SameConnection does, for 2-3)
	rt.Unwind(4*NC*NT + 100) // the message loop takes one turn per message; tables grow to NC*NT entries
	w := newWorld(worldOpts{nBackends: 1, tcpListener: true})
	var conns []*fakenet.TCPConn
	for c := 0; c < NC; c++ {
		conns = append(conns, fakenet.NewTCPConn(wListenAddr+":5060", "10.0.2.2:"+itoa(40000+c)))
	}
	var txns []c12Txn
	for a := 0; a < NC*NT; a++ {
		c, t := a%NC, a/NC
		callID := "c" + itoa(c) + "t" + itoa(t)
		req := "INVITE sip:svc@" + wService + " SIP/2.0\r\nVia: SIP/2.0/TCP 10.0.2.2:5060;branch=z9hG4bK" + callID + "\r\nFrom: <sip:u" + itoa(c) + "@example.com>;tag=f\r\nTo: <sip:svc@" + wService +
			">\r\nCall-ID: " + callID + "\r\nCSeq: 1 INVITE\r\nContent-Length: 0\r\n\r\n"
		before := len(w.bs[0].sent)
		rt.Assert(w.deliverTCP(req, conns[c], "10.0.2.2", 40000+c, support), "request decodes")
		rt.Assert(len(w.bs[0].sent) == before+1, "request relayed to the backend")
		if len(w.bs[0].sent) != before+1 {
			return
		}
		txns = append(txns, c12Txn{conn: c, callID: callID, relayed: w.bs[0].sent[before], method: "INVITE"})
	}
	oldestFirst := rt.Bool("oldest-first")
	for k := range txns {
		x := txns[k]
		if !oldestFirst {
			x = txns[len(txns)-1-k]
		}
		statuses := []int{200}
		if x.callID == "c0t0" {
			statuses = []int{180, 200}
		}
		for _, st := range statuses {
			resp := "SIP/2.0 " + itoa(st) + " OK\r\n" + viaEcho(x.relayed) + "From: <sip:u" + itoa(x.conn) + "@example.com>;tag=f\r\nTo: <sip:svc@" + wService + ">;tag=t\r\nCall-ID: " + x.callID +
				"\r\nCSeq: 1 INVITE\r\nContent-Length: 0\r\n\r\n"
			total := 0
			for c := range conns {
				total += len(conns[c].Written)
			}
			mine := len(conns[x.conn].Written)
			rt.Assert(w.deliver(resp, "10.0.1.1", 5060, support), "response decodes")
			after := 0
			for c := range conns {
				after += len(conns[c].Written)
			}
			rt.Assert(len(conns[x.conn].Written) == mine+1 && after == total+1, "backlog: the response is written to the connection its request arrived on, and to no other")
			rt.Assert(totalDials() == 0 && len(fakenet.Conns) == NC, "backlog: no new connection is opened for a response")
		}
	}
	rt.Reach("end")
}
