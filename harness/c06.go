package main

// C06 — the proxy inserts itself correctly: one fresh top Via, Record-Route by policy.

import (
	"strings"

	"MODULEPATH/zzverif/fakenet"
	"MODULEPATH/zzverif/rt"
)

// isFreshBranch: "z9hG4bK" followed by exactly 12 lowercase hex digits.
func isFreshBranch(b string) bool {
	if len(b) != 19 || b[:7] != "z9hG4bK" {
		return false
	}
	return !strings.ContainsAny(b[7:], "ghijklmnopqrstuvwxyzGHIJKLMNOPQRSTUVWXYZABCDEF-_.!~*'+%`") && len(b[7:]) == 12
}

// VC06_Insert: requests with 0..NV Via entries and 0..NR Record-Route entries in any layout and
// position, over the three relaying paths, must-record-route on/off, next hop learned or not.
func VC06_Insert() {
	L, NV, NR := rt.Param("L"), rt.Param("NV"), rt.Param("NR")
	path := rt.Choice("path", 3) // 0 backend, 1 Route, 2 static route
	must := rt.Bool("must-record-route")
	tcpl := rt.Bool("tcp-listener")
	learned := true
	if path != 0 {
		learned = rt.Bool("next-hop-learned")
	}
	w := newWorld(worldOpts{nBackends: 1, mustRecordRoute: must, tcpListener: tcpl, routes: [][3]string{{"udp", "static.example.org", "10.0.3.3:5070"}}})
	if path != 0 && learned {
		// learning = an earlier request received from that host, or listing it in a Via
		viaLearn := "Via: SIP/2.0/UDP 10.0.3.3:5070;branch=z9hG4bKe\r\n"
		switch rt.Choice("learning-via-layout", 3) {
		case 1: // the host is listed on a second Via header line
			viaLearn = "Via: SIP/2.0/UDP 10.0.7.8:5060;branch=z9hG4bKe0\r\nv: SIP/2.0/UDP 10.0.3.3:5070;branch=z9hG4bKe\r\n"
		case 2: // ... or as a second entry of one line
			viaLearn = "Via: SIP/2.0/UDP 10.0.7.8:5060;branch=z9hG4bKe0,SIP/2.0/UDP 10.0.3.3:5070;branch=z9hG4bKe\r\n"
		}
		early := "OPTIONS sip:x@nowhere.invalid SIP/2.0\r\n" + viaLearn + "From: <sip:e@example.com>;tag=e\r\nTo: <sip:x@nowhere.invalid>\r\nCall-ID: early\r\nCSeq: 1 OPTIONS\r\nContent-Length: 0\r\n\r\n"
		src := "10.0.3.3"
		if rt.Bool("learned-by-via") {
			src = "10.0.7.7"
		}
		w.deliver(early, src, 5070, true)
		rt.Assert(len(w.sentAll()) == 0, "the unroutable learning request is dropped")
	}
	nv := rt.Choice("nvia", NV+1)
	nr := rt.Choice("nrr", NR+1)
	var vias, rrs []string
	for i := 0; i < nv; i++ {
		vias = append(vias, "SIP/2.0/UDP 10.0.2."+itoa(2+i)+":5060;branch=z9hG4bK"+rt.Str("br", "alnum", 1, L))
	}
	for i := 0; i < nr; i++ {
		// existing entries: foreign proxies, or this very listener (a request that spirals back)
		switch rt.Choice("rr-kind", 4) {
		case 0:
			rrs = append(rrs, "<sip:10.0.8."+itoa(1+i)+";lr>")
		case 1:
			rrs = append(rrs, "<sip:"+wListenAddr+":"+itoa(wListenPort)+";lr>")
		case 2:
			rrs = append(rrs, "<sip:"+wListenAddr+";lr>")
		case 3:
			rrs = append(rrs, "<sip:"+rt.Str("rruser", clsUser, 1, 2)+"@10.0.8."+rt.Dec("rroctet", 2)+":"+genPort()+";lr;"+rt.Str("rrpk", clsParam, 1, 2)+">")
		}
	}
	// layout: Via lines, then other headers with the Record-Route lines before or after From
	head := ""
	for i, v := range vias {
		if i > 0 && rt.Bool("via-comma") {
			head = head[:len(head)-2] + []string{",", ", "}[rt.Choice("via-comma-blank", 2)] + v + "\r\n"
		} else {
			head += []string{"Via", "v"}[rt.Choice("vianame", 2)] + ": " + v + "\r\n"
		}
	}
	rrBlock := ""
	for i, r := range rrs {
		if i > 0 && rt.Bool("rr-comma") {
			rrBlock = rrBlock[:len(rrBlock)-2] + []string{",", ", "}[rt.Choice("rr-comma-blank", 2)] + r + "\r\n"
		} else {
			rrBlock += "Record-Route: " + r + "\r\n"
		}
	}
	rest := "Max-Forwards: 70\r\nFrom: <sip:alice@example.com>;tag=a\r\n"
	if rt.Bool("rr-after-from") {
		head += rest + rrBlock
	} else {
		head += rrBlock + rest
	}
	start, route, to := "", "", "<sip:bob@"+wService+">"
	switch path {
	case 0:
		start = "INVITE sip:bob@" + wService + " SIP/2.0"
	case 1:
		start = "INVITE sip:bob@far.example.net SIP/2.0"
		route = "Route: <sip:10.0.3.3:5070;lr>\r\n"
	case 2:
		start = "INVITE sip:bob@static.example.org SIP/2.0"
		to = "<sip:bob@static.example.org>"
	}
	text := start + "\r\n" + head + route + "To: " + to + "\r\nCall-ID: c1\r\nCSeq: 1 INVITE\r\nContent-Length: 0\r\n\r\n"
	before := rt.UUIDCalls()
	ok := w.deliver(text, "10.0.2.2", 5060, false)
	rt.Assert(ok, "request decodes")
	if !ok {
		return
	}
	sent := w.sentAll()
	rt.Assert(len(sent) == 1, "the request is relayed exactly once")
	if len(sent) != 1 {
		return
	}
	m := refRead(sent[0].bytes)
	gotV, gotR := m.listOf("via"), m.listOf("record-route")
	proto := "UDP"
	if tcpl {
		proto = "TCP"
	}
	if !learned {
		rt.Assert(len(gotV) == nv && len(gotR) == nr, "next hop not reachable through a learned listener: neither Via nor Record-Route is added")
		for i := range vias {
			if len(gotV) == nv {
				rt.Assert(gotV[i] == vias[i], "existing Via entries unchanged")
			}
		}
		rt.Reach("end")
		return
	}
	rt.Assert(len(gotV) == nv+1, "exactly one new Via entry")
	if len(gotV) != nv+1 {
		return
	}
	prefix := "SIP/2.0/" + proto + " " + wListenAddr + ":" + itoa(wListenPort) + ";branch="
	rt.Assert(strings.HasPrefix(gotV[0], prefix), "the new Via is topmost and names the listener's transport, address and port")
	if strings.HasPrefix(gotV[0], prefix) {
		rt.Assert(isFreshBranch(gotV[0][len(prefix):]), "the branch is the magic cookie z9hG4bK plus the generated value, and nothing else")
	}
	for i := range vias {
		rt.Assert(gotV[i+1] == vias[i], "every Via entry already present stays beneath it in its original order")
	}
	// the first header line of kind Via in the relayed message is the new one
	for i, n := range m.names {
		if hdrKind(n) == "via" {
			rt.Assert(strings.HasPrefix(m.values[i], prefix), "the new Via precedes all existing Via lines")
			break
		}
	}
	if nr > 0 || must {
		rt.Assert(len(gotR) == nr+1, "one Record-Route entry added")
		if len(gotR) == nr+1 {
			rt.Assert(gotR[0] == "<sip:"+wListenAddr+":"+itoa(wListenPort)+";lr>", "the new Record-Route entry is ahead of all existing ones and names the listener")
			for i := range rrs {
				rt.Assert(gotR[i+1] == rrs[i], "existing Record-Route entries unchanged")
			}
		}
	} else {
		rt.Assert(len(gotR) == 0, "no Record-Route entry is added")
	}
	// "freshly generated": the branch comes from a draw of the random source made for this request (the native twin counts
	// reads of the uuid package's source, the executor calls of its model)
	rt.Assert(rt.UUIDCalls()-before == 1, "the random source is consulted exactly once per relayed request")
	rt.Reach("end")
}

// VC06_FailingBackend: the backend a request is handed to may refuse it (closed socket, dead TCP
// peer) — pinned by a dialog or chosen by the rotation. Whatever any backend then receives for
// that request still carries exactly ONE Via and at most one Record-Route entry of the proxy.
func VC06_FailingBackend() {
	L := rt.Param("L")
	must := rt.Bool("must-record-route")
	w := newWorld(worldOpts{nBackends: 2, mustRecordRoute: must})
	d := genDlg(L)
	inDialog := rt.Bool("in-dialog")
	failing := 0
	if inDialog {
		failing = establish(w, d, 200)
		if failing < 0 {
			return
		}
	} else {
		failing = (w.rr.index + 1) % 2 // the backend the rotation picks next
	}
	w.bs[failing].fail = true
	before := counts(w)
	method := []string{"INFO", "BYE", "MESSAGE"}[rt.Choice("method", 3)]
	rt.Assert(w.deliver(c04Request(method, d, false, inDialog, ""), "10.0.2.2", 5060, true), "request decodes")
	_, n := newSends(w, before)
	rt.Assert(n <= 1, "the request is handed to at most one backend")
	own := "SIP/2.0/UDP " + wListenAddr + ":" + itoa(wListenPort) + ";branch=z9hG4bK"
	for bi, b := range w.bs {
		for i := before[bi]; i < len(b.sent); i++ {
			m := refRead(b.sent[i])
			nv := 0
			for _, v := range m.listOf("via") {
				if len(v) >= len(own) && v[:len(own)] == own {
					nv++
				}
			}
			nr := 0
			for _, r := range m.listOf("record-route") {
				if r == "<sip:"+wListenAddr+":"+itoa(wListenPort)+";lr>" {
					nr++
				}
			}
			rt.Assert(nv == 1, "after a refused hand-over: exactly one Via of the proxy on what a backend receives")
			rt.Assert(nr <= 1 && (nr == 1) == must, "after a refused hand-over: Record-Route by policy, once")
		}
	}
	rt.Reach("end")
}

// VC06_ConnLearned: the next hop was learned through a connection-bound TCP transport (the kind the proxy creates for its
// outbound connections and for backend connections): a request arrived over that connection from the hop, or listing it in
// a Via. A request relayed to that hop afterwards gets the one new Via naming that transport (and the Record-Route entry
// when the listener always records) — also when the connection has been closed by the peer in the meantime: learning is
// "an earlier request received from that host", and nothing in the property lets a closed connection unlearn it.
func VC06_ConnLearned() {
	must := rt.Bool("must-record-route")
	w := newWorld(worldOpts{nBackends: 1, mustRecordRoute: must})
	c := fakenet.NewTCPConn(wListenAddr+":40123", "10.0.3.3:5070")
	trans := NewTCPServerTransportWithConn(c, true, w.p.selfLearnRoute)
	rt.Assert(trans != nil, "connection-bound transport created")
	if trans == nil {
		return
	}
	trans.Start(w.p)
	rt.Quiesce()
	via := "SIP/2.0/TCP 10.0.3.3:5070;branch=z9hG4bKe"
	if rt.Bool("learned-by-via") {
		via = "SIP/2.0/TCP 10.0.7.8:5060;branch=z9hG4bKe0,SIP/2.0/UDP 10.0.3.3:5070;branch=z9hG4bKe"
	}
	early := "OPTIONS sip:x@nowhere.invalid SIP/2.0\r\nVia: " + via + "\r\nFrom: <sip:e@example.com>;tag=e\r\nTo: <sip:x@nowhere.invalid>\r\nCall-ID: early\r\nCSeq: 1 OPTIONS\r\nContent-Length: 0\r\n\r\n"
	c.Feed([]byte(early))
	rt.Quiesce()
	rt.Assert(len(w.sentAll()) == 0, "the unroutable learning request is dropped")
	closed := rt.Bool("connection-closed-by-peer")
	if closed {
		c.EOF()
		rt.Quiesce()
	}
	text := "INVITE sip:bob@far.example.net SIP/2.0\r\nVia: SIP/2.0/UDP 10.0.2.2:5060;branch=z9hG4bKc\r\nRoute: <sip:10.0.3.3:5070;lr>\r\nMax-Forwards: 70\r\n" +
		"From: <sip:alice@example.com>;tag=a\r\nTo: <sip:bob@far.example.net>\r\nCall-ID: c1\r\nCSeq: 1 INVITE\r\nContent-Length: 0\r\n\r\n"
	rt.Assert(w.deliver(text, "10.0.2.2", 5060, false), "request decodes")
	sent := w.sentAll()
	rt.Assert(len(sent) == 1, "the request is relayed exactly once")
	if len(sent) != 1 {
		return
	}
	m := refRead(sent[0].bytes)
	gotV, gotR := m.listOf("via"), m.listOf("record-route")
	rt.Assert(len(gotV) == 2, "exactly one new Via entry for a next hop learned through a connection")
	if len(gotV) == 2 {
		prefix := "SIP/2.0/TCP " + wListenAddr + ":40123;branch="
		rt.Assert(strings.HasPrefix(gotV[0], prefix), "the new Via names the transport the hop was learned through")
		if strings.HasPrefix(gotV[0], prefix) {
			rt.Assert(isFreshBranch(gotV[0][len(prefix):]), "fresh branch with the magic cookie")
		}
		rt.Assert(gotV[1] == "SIP/2.0/UDP 10.0.2.2:5060;branch=z9hG4bKc", "the existing Via stays beneath")
	}
	if must {
		rt.Assert(len(gotR) == 1 && gotR[0] == "<sip:"+wListenAddr+":40123;lr>", "always-record listener: one Record-Route entry for the learned transport")
	} else {
		rt.Assert(len(gotR) == 0, "no Record-Route entry is added")
	}
	rt.Reach("end")
}
