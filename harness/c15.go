package main

// C15 — dialog pins live exactly as long as promised and are forgotten on termination.

import (
	"MODULEPATH/zzverif/faketime"
	"MODULEPATH/zzverif/rt"
)

const c15Second = 1000000000

// VC15_Lifetime: pin at t0, lookup at t0+dt: found while dt < max(T, Expires), never after.
func VC15_Lifetime() {
	T := rt.Int("T", 1, 3600)
	e := rt.Int("expires", 0, 2147483647)
	t0 := rt.Int("t0", 0, 4000000000) * c15Second
	faketime.SetClock(int64(t0))
	d := NewDialogBasedBackend(int64(T))
	b := &vBackend{addr: "10.0.0.1:5060"}
	d.AddBackend("dlg", b, e)
	dt := rt.Int("dt_ms", 0, 4000000000000) * 1000000
	faketime.Advance(faketime.Duration(dt))
	got, err := d.GetBackend("dlg")
	life := T
	if e > T {
		life = e
	}
	if dt < life*c15Second {
		rt.Assert(err == nil && got == Backend(b), "pin honoured within max(dialog timeout, Expires)")
	}
	if dt > life*c15Second {
		rt.Assert(err != nil, "pin never honoured after its lifetime has elapsed")
		_, still := d.backends["dlg"]
		rt.Assert(!still, "an expired pin is dropped when it is looked up")
	}
	rt.Reach("end")
}

// VC15_Purge: a pin X is added, then traffic continues: K further pins with arbitrary Expires
// at arbitrary later instants. Once a pin arrives later than expire(X) + dialog timeout, X is
// gone from the table — whatever Expires values the messages carried.
func VC15_Purge() {
	K := rt.Param("K")
	T := rt.Int("T", 1, 3600)
	now := rt.Int("t0", 0, 1000000) * c15Second
	faketime.SetClock(int64(now))
	d := NewDialogBasedBackend(int64(T))
	b := &vBackend{addr: "10.0.0.1:5060"}
	// some time passes before the first pin
	gap0 := rt.Int("gap0_s", 0, 100000)
	faketime.Advance(faketime.Duration(gap0 * c15Second))
	now += gap0 * c15Second
	ex := rt.Int("expiresX", 0, 2147483647)
	d.AddBackend("X", b, ex)
	life := T
	if ex > T {
		life = ex
	}
	expireX := now + life*c15Second
	for i := 0; i < K; i++ {
		gap := rt.Int("gap_s", 0, 1000000000) // up to ~32 years per step: the sum stays inside int64 nanoseconds for K <= 8
		faketime.Advance(faketime.Duration(gap * c15Second))
		now += gap * c15Second
		d.AddBackend("other"+itoa(i), b, rt.Int("expires", 0, 2147483647))
		if now > expireX+T*c15Second {
			_, still := d.backends["X"]
			rt.Assert(!still, "an expired pin does not survive more than one further dialog-timeout period of ongoing traffic")
		}
	}
	rt.ObserveInt("size", len(d.backends))
	rt.Reach("end")
}

// VC15_Step: one AddBackend from an arbitrary table and an arbitrary next-sweep instant that
// satisfies the invariant "next sweep <= now + dialog timeout": the invariant is re-established
// and a due sweep removes every expired entry (covers histories of any length).
func VC15_Step() {
	T := rt.Int("T", 1, 3600)
	now := rt.Int("now_s", 1000000, 2000000) * c15Second
	faketime.SetClock(int64(now))
	d := NewDialogBasedBackend(int64(T))
	b := &vBackend{addr: "10.0.0.1:5060"}
	n := rt.Choice("entries", 3)
	var exp []int
	for i := 0; i < n; i++ {
		e := rt.Int("expire_s", 0, 4000000) * c15Second
		exp = append(exp, e)
		d.backends["old"+itoa(i)] = &ExpireBackend{backend: b, expire: faketime.Unix(0, int64(e))}
	}
	nc := rt.Int("nextclean_s", 0, 4000000) * c15Second
	rt.Assume(nc <= now+T*c15Second)
	d.nextCleanTime = faketime.Unix(0, int64(nc))
	d.AddBackend("new", b, rt.Int("expires", 0, 2147483647))
	after := int(d.nextCleanTime.UnixNano())
	rt.Assert(after <= now+T*c15Second, "invariant: the next sweep is never further away than one dialog timeout")
	if nc < now {
		for i := 0; i < n; i++ {
			_, still := d.backends["old"+itoa(i)]
			if exp[i] < now {
				rt.Assert(!still, "a due sweep removes every expired pin")
			} else if exp[i] > now {
				rt.Assert(still, "a sweep keeps pins that have not expired")
			}
		}
	}
	_, ok := d.backends["new"]
	rt.Assert(ok, "the new pin is stored")
	rt.Reach("end")
}
