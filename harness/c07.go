package main

// C07 — received / rport record the packet's true source when enabled.

import (
	"strconv"
	"strings"

	"MODULEPATH/zzverif/fakenet"
	"MODULEPATH/zzverif/rt"
)

// c07ViaProto is the transport the sender names in its Via (the one the request travels over).
var c07ViaProto = "UDP"

// c07Request builds a request whose top Via names a host/port different from the source.
// c07Claimed is what a pre-filled received parameter says: a foreign address (spoofed) unless the harness sets it to the
// sender's true address (a sender that knows its address and pre-fills received — correctly — and rport — wrongly).
var c07Claimed = "192.0.2.99"

func c07Request(L int, rportKind, recvKind int) (text, via0, via1 string) {
	branch := ";branch=z9hG4bK" + rt.Str("br", "alnum", 1, L)
	params := ""
	switch rportKind {
	case 1:
		params += ";rport"
	case 2:
		params += ";rport=" + genPort() // pre-filled (spoofed)
	}
	if recvKind == 1 {
		if rt.Bool("received-before-rport") {
			params = ";received=" + c07Claimed + params // spoofed
		} else {
			params += ";received=" + c07Claimed
		}
	}
	// the parameters may stand before or after the branch
	if rt.Bool("params-before-branch") {
		via0 = "SIP/2.0/" + c07ViaProto + " 192.0.2.1:7777" + params + branch
	} else {
		via0 = "SIP/2.0/" + c07ViaProto + " 192.0.2.1:7777" + branch + params
	}
	if rt.Bool("extra-param") {
		via0 += ";" + rt.Str("xk", "[a-qs-z]", 1, L) + "=" + rt.Str("xv", clsToken, 1, L)
	}
	via1 = "SIP/2.0/UDP 192.0.2.2;branch=z9hG4bKdeep;rport;received=192.0.2.3"
	sep := "\r\nVia: "
	if rt.Bool("one-via-line") {
		sep = ","
	}
	text = "INVITE sip:bob@" + wService + " SIP/2.0\r\nVia: " + via0 + sep + via1 +
		"\r\nFrom: <sip:alice@example.com>;tag=a\r\nTo: <sip:bob@" + wService + ">\r\nCall-ID: c1\r\nCSeq: 1 INVITE\r\nContent-Length: 0\r\n\r\n"
	return
}

// paramOf returns the value of parameter k of a Via entry text (ok=false if absent).
func paramOf(entry, k string) (string, bool) {
	for i, p := range strings.Split(entry, ";") {
		if i == 0 {
			continue
		}
		if p == k {
			return "", true
		}
		if strings.HasPrefix(p, k+"=") {
			return p[len(k)+1:], true
		}
	}
	return "", false
}

// stripParams removes the parameters named received / rport from a Via entry text.
func stripParams(entry string) string {
	out := ""
	for i, p := range strings.Split(entry, ";") {
		if i > 0 && (p == "rport" || strings.HasPrefix(p, "rport=") || strings.HasPrefix(p, "received=")) {
			continue
		}
		if i > 0 {
			out += ";"
		}
		out += p
	}
	return out
}

// VC07_Stamp: the listener stamps received / rport on the sender's Via; the response travels
// back to the packet's true source.
func VC07_Stamp() {
	L := rt.Param("L")
	support := rt.Bool("received-support")
	rportKind := rt.Choice("rport", 3)
	recvKind := rt.Choice("received", 2)
	tcp := rt.Bool("tcp")
	w := newWorld(worldOpts{nBackends: 1, tcpListener: tcp})
	srcIP := "10.0.2." + rt.Dec("octet", 2)
	srcPortS := genPort()
	srcPort, _ := strconv.Atoi(srcPortS)
	c07Claimed = "192.0.2.99"
	if recvKind == 1 && rt.Bool("claimed-received-is-the-true-source") {
		c07Claimed = srcIP
	}
	text, via0, via1 := c07Request(L, rportKind, recvKind)
	var conn *fakenet.TCPConn
	ok := false
	if tcp {
		conn = fakenet.NewTCPConn(wListenAddr+":5060", srcIP+":"+srcPortS)
		ok = w.deliverTCP(text, conn, srcIP, srcPort, support)
	} else {
		ok = w.deliver(text, srcIP, srcPort, support)
	}
	rt.Assert(ok, "request decodes")
	if !ok {
		return
	}
	rt.Assert(len(w.bs[0].sent) == 1, "request relayed to the backend")
	if len(w.bs[0].sent) != 1 {
		return
	}
	got := refRead(w.bs[0].sent[0]).listOf("via")
	rt.Assert(len(got) == 3, "own Via plus the two received entries")
	if len(got) != 3 {
		return
	}
	rt.Assert(got[2] == via1, "all other Via entries are untouched")
	if !support {
		rt.Assert(got[1] == via0, "received-support disabled: the sender's Via is relayed as sent")
	} else {
		r, has := paramOf(got[1], "received")
		rt.Assert(has && r == srcIP, "received=<actual source IP>, overriding any supplied value")
		rp, hasRp := paramOf(got[1], "rport")
		if rportKind == 0 {
			rt.Assert(!hasRp, "no rport parameter is added when none was requested")
		} else {
			rt.Assert(hasRp && rp == srcPortS, "rport=<actual source port> when the entry carried an rport parameter")
		}
		rt.Assert(stripParams(got[1]) == stripParams(via0), "all other parameters of the sender's Via are untouched")
	}
	// the response leg (UDP): back to the true source
	if tcp {
		rt.Reach("end")
		return
	}
	resp := "SIP/2.0 200 OK\r\n"
	m := refRead(w.bs[0].sent[0])
	for i := range m.names {
		if hdrKind(m.names[i]) == "via" {
			resp += "Via: " + m.values[i] + "\r\n"
		}
	}
	resp += "From: <sip:alice@example.com>;tag=a\r\nTo: <sip:bob@" + wService + ">;tag=b\r\nCall-ID: c1\r\nCSeq: 1 INVITE\r\nContent-Length: 0\r\n\r\n"
	rt.Assert(w.deliver(resp, "10.0.1.1", 5060, support), "response decodes")
	if support {
		rt.Assert(len(fakenet.Sent) == 1, "response relayed once")
		if len(fakenet.Sent) == 1 {
			if rportKind == 0 {
				rt.Assert(fakenet.Sent[0].Remote == srcIP+":7777", "response goes to the true source address (sent-by port: no rport requested)")
			} else {
				rt.Assert(fakenet.Sent[0].Remote == srcIP+":"+srcPortS, "response goes to the true source address and port")
			}
		}
	}
	rt.Reach("end")
}

// VC07_Wiring: the listener configuration reaches the listeners: a ProxyConfig with
// no-received false / true through the real startProxy; a datagram injected into the UDP
// socket and a TCP connection handed to the TCP listener.
func VC07_Wiring() {
	L := rt.Param("L")
	fakenet.Reset()
	noReceived := rt.Bool("no-received")
	tcp := rt.Bool("tcp")
	cfg := ProxyConfig{Name: wService}
	cfg.Listens = append(cfg.Listens, struct {
		Address            string
		UDPPort            int      `yaml:"udp-port,omitempty"`
		TCPPort            int      `yaml:"tcp-port,omitempty"`
		BackendLocalAdress string   `yaml:"backend-local-address,omitempty"`
		BackendLocalPort   int      `yaml:"backend-local-port,omitempty"`
		Backends           []string `yaml:",omitempty"`
		Dests              []string `yaml:",omitempty"`
		NoReceived         bool     `yaml:"no-received,omitempty"`
		defRoute           bool     `yaml:"def-route,omitempty"`
		MustRecordRoute    bool     `yaml:"must-record-route,omitempty"`
	}{Address: wListenAddr, UDPPort: 5060, TCPPort: 5060, BackendLocalAdress: wListenAddr, BackendLocalPort: 5080,
		Backends: []string{"udp://10.0.1.1:5060"}, NoReceived: noReceived})
	err := startProxy(cfg, NewPreConfigRoute(), NewPreConfigHostResolver())
	rt.Assert(err == nil, "proxy starts")
	if err != nil {
		return
	}
	rt.Quiesce()
	srcIP := "10.0.2." + rt.Dec("octet", 2)
	c07ViaProto = "UDP"
	if tcp {
		c07ViaProto = "TCP"
	}
	text, via0, _ := c07Request(L, 1, 0)
	c07ViaProto = "UDP"
	if tcp {
		rt.Assert(len(fakenet.Listeners) == 1, "TCP listener created")
		if len(fakenet.Listeners) != 1 {
			return
		}
		c := fakenet.NewTCPConn(wListenAddr+":5060", srcIP+":4444")
		fakenet.Listeners[0].Connect(c)
		rt.Quiesce()
		c.Feed([]byte(text))
	} else {
		var sock *fakenet.UDPConn
		for _, u := range fakenet.UDPConns {
			if u.LocalAddr().String() == wListenAddr+":5060" {
				sock = u
			}
		}
		rt.Assert(sock != nil, "UDP listener socket created")
		if sock == nil {
			return
		}
		sock.Deliver(srcIP+":4444", []byte(text))
	}
	rt.Quiesce()
	var out []string
	for _, d := range fakenet.Sent {
		if d.Remote == "10.0.1.1:5060" {
			out = append(out, string(d.Payload))
		}
	}
	rt.Assert(len(out) == 1, "the request reaches the backend once")
	if len(out) != 1 {
		return
	}
	got := refRead(out[0]).listOf("via")
	rt.Assert(len(got) == 3, "own Via plus the two received entries")
	if len(got) != 3 {
		return
	}
	if noReceived {
		rt.Assert(got[1] == via0, "no-received: true — the sender's Via is relayed as sent")
	} else {
		r, has := paramOf(got[1], "received")
		rp, hasRp := paramOf(got[1], "rport")
		rt.Assert(has && r == srcIP && hasRp && rp == "4444", "default (no-received absent/false): received and rport are stamped")
	}
	// the response leg: the backend answers with the Via stack it received; the response travels back
	// to the packet's true source (UDP) / on the connection the request arrived on (TCP)
	var udpSock *fakenet.UDPConn
	for _, u := range fakenet.UDPConns {
		if u.LocalAddr().String() == wListenAddr+":5060" {
			udpSock = u
		}
	}
	if udpSock == nil {
		return
	}
	mark := len(fakenet.Sent)
	dials := 0
	for _, n := range fakenet.Dials {
		dials += n
	}
	resp := "SIP/2.0 200 OK\r\nVia: " + got[0] + "\r\nVia: " + got[1] + "\r\nVia: " + got[2] +
		"\r\nFrom: <sip:alice@example.com>;tag=a\r\nTo: <sip:bob@" + wService + ">;tag=b\r\nCall-ID: c1\r\nCSeq: 1 INVITE\r\nContent-Length: 0\r\n\r\n"
	udpSock.Deliver("10.0.1.1:5060", []byte(resp))
	rt.Quiesce()
	if tcp {
		var conn *fakenet.TCPConn
		for _, c := range fakenet.Conns {
			if c.RemoteAddr().String() == srcIP+":4444" {
				conn = c
			}
		}
		dialsAfter := 0
		for _, n := range fakenet.Dials {
			dialsAfter += n
		}
		rt.Assert(conn != nil && len(conn.Written) == 1 && dialsAfter == dials && len(fakenet.Sent) == mark, "TCP: the response returns on the connection the request arrived on, nothing is dialled")
	} else if noReceived {
		rt.Assert(len(sentTo("192.0.2.1:7777", mark)) == 1 && len(fakenet.Sent) == mark+1, "no-received: the response goes to what the sender wrote")
	} else {
		rt.Assert(len(sentTo(srcIP+":4444", mark)) == 1 && len(fakenet.Sent) == mark+1, "UDP: the response returns to the packet's true source address and port")
	}
	rt.Reach("end")
}

// VC07_Burst: K requests from different sources arrive back to back (all of them are on the
// socket / their connections before the proxy gets to run), through the real startProxy wiring.
// Every one of them must leave with received / rport of ITS OWN packet.
func VC07_Burst() {
	L, K := rt.Param("L"), rt.Param("K")
	fakenet.Reset()
	rt.RaceMonitor(true)
	tcp := rt.Bool("tcp")
	cfg := ProxyConfig{Name: wService}
	cfg.Listens = append(cfg.Listens, struct {
		Address            string
		UDPPort            int      `yaml:"udp-port,omitempty"`
		TCPPort            int      `yaml:"tcp-port,omitempty"`
		BackendLocalAdress string   `yaml:"backend-local-address,omitempty"`
		BackendLocalPort   int      `yaml:"backend-local-port,omitempty"`
		Backends           []string `yaml:",omitempty"`
		Dests              []string `yaml:",omitempty"`
		NoReceived         bool     `yaml:"no-received,omitempty"`
		defRoute           bool     `yaml:"def-route,omitempty"`
		MustRecordRoute    bool     `yaml:"must-record-route,omitempty"`
	}{Address: wListenAddr, UDPPort: 5060, TCPPort: 5060, BackendLocalAdress: wListenAddr, BackendLocalPort: 5080,
		Backends: []string{"udp://10.0.1.1:5060"}})
	err := startProxy(cfg, NewPreConfigRoute(), NewPreConfigHostResolver())
	rt.Assert(err == nil, "proxy starts")
	if err != nil {
		return
	}
	rt.Quiesce()
	var sock *fakenet.UDPConn
	for _, u := range fakenet.UDPConns {
		if u.LocalAddr().String() == wListenAddr+":5060" {
			sock = u
		}
	}
	rt.Assert(sock != nil && len(fakenet.Listeners) == 1, "listeners created")
	if sock == nil || len(fakenet.Listeners) != 1 {
		return
	}
	var srcIP, srcPort []string
	var conns []*fakenet.TCPConn
	var texts []string
	for i := 0; i < K; i++ {
		ip := "10." + itoa(2+i) + ".2." + rt.Dec("octet", 2)
		port := genPort()
		srcIP, srcPort = append(srcIP, ip), append(srcPort, port)
		texts = append(texts, "INVITE sip:bob@"+wService+" SIP/2.0\r\nVia: SIP/2.0/UDP 192.0.2.1:7777;branch=z9hG4bK"+itoa(i)+rt.Str("br", "alnum", 1, L)+";rport"+
			"\r\nFrom: <sip:alice@example.com>;tag=a\r\nTo: <sip:bob@"+wService+">\r\nCall-ID: call"+itoa(i)+"\r\nCSeq: 1 INVITE\r\nContent-Length: 0\r\n\r\n")
		if tcp {
			c := fakenet.NewTCPConn(wListenAddr+":5060", ip+":"+port)
			fakenet.Listeners[0].Connect(c)
			conns = append(conns, c)
		}
	}
	if tcp {
		rt.Quiesce()
	}
	for i := 0; i < K; i++ {
		if tcp {
			conns[i].Feed([]byte(texts[i]))
		} else {
			sock.Deliver(srcIP[i]+":"+srcPort[i], []byte(texts[i]))
		}
	}
	rt.Quiesce()
	seen := 0
	for _, d := range fakenet.Sent {
		if d.Remote != "10.0.1.1:5060" {
			continue
		}
		m := refRead(string(d.Payload))
		for i := 0; i < K; i++ {
			if m.first("call-id") != "call"+itoa(i) {
				continue
			}
			seen++
			via := m.listOf("via")
			rt.Assert(len(via) == 2, "own Via plus the sender's")
			if len(via) != 2 {
				return
			}
			r, has := paramOf(via[1], "received")
			rp, hasRp := paramOf(via[1], "rport")
			rt.Assert(has && r == srcIP[i], "burst: received is the source address of this very packet")
			rt.Assert(hasRp && rp == srcPort[i], "burst: rport is the source port of this very packet")
		}
	}
	rt.Assert(seen == K && len(fakenet.Sent) == K, "every request of the burst reaches the backend once")
	rt.Reach("end")
}

// VC07_Outbound: a listener created for an OUTBOUND TCP connection (the one the proxy opens to a
// tcp:// backend) stamps requests arriving on it according to the no-received option of ITS OWN
// listens entry — with a second listens entry configured the other way round.
func VC07_Outbound() {
	fakenet.Reset()
	nr0 := rt.Bool("no-received-0")
	nr1 := rt.Bool("no-received-1")
	cfg := ProxyConfig{Name: wService}
	type listen = struct {
		Address            string
		UDPPort            int      `yaml:"udp-port,omitempty"`
		TCPPort            int      `yaml:"tcp-port,omitempty"`
		BackendLocalAdress string   `yaml:"backend-local-address,omitempty"`
		BackendLocalPort   int      `yaml:"backend-local-port,omitempty"`
		Backends           []string `yaml:",omitempty"`
		Dests              []string `yaml:",omitempty"`
		NoReceived         bool     `yaml:"no-received,omitempty"`
		defRoute           bool     `yaml:"def-route,omitempty"`
		MustRecordRoute    bool     `yaml:"must-record-route,omitempty"`
	}
	cfg.Listens = append(cfg.Listens, listen{Address: wListenAddr, UDPPort: 5060, BackendLocalAdress: wListenAddr, BackendLocalPort: 5080,
		Backends: []string{"tcp://10.0.1.1:5060"}, NoReceived: nr0})
	cfg.Listens = append(cfg.Listens, listen{Address: "10.0.0.10", UDPPort: 5060, BackendLocalAdress: "10.0.0.10", BackendLocalPort: 5080,
		Backends: []string{"udp://10.0.1.2:5060"}, NoReceived: nr1})
	var backendConn *fakenet.TCPConn
	fakenet.DialHook = func(network, address string) (fakenet.Conn, error) {
		c := fakenet.NewTCPConn(wListenAddr+":40000", address)
		if address == "10.0.1.1:5060" {
			backendConn = c
		}
		return c, nil
	}
	err := startProxy(cfg, NewPreConfigRoute(), NewPreConfigHostResolver())
	rt.Assert(err == nil, "proxy starts")
	if err != nil {
		return
	}
	rt.Quiesce()
	var sock *fakenet.UDPConn
	for _, u := range fakenet.UDPConns {
		if u.LocalAddr().String() == wListenAddr+":5060" {
			sock = u
		}
	}
	rt.Assert(sock != nil, "UDP listener socket created")
	if sock == nil {
		return
	}
	// a client request makes the proxy open its connection to the TCP backend
	first := "OPTIONS sip:bob@" + wService + " SIP/2.0\r\nVia: SIP/2.0/UDP 10.0.2.2:5060;branch=z9hG4bKo1\r\nFrom: <sip:alice@example.com>;tag=a\r\nTo: <sip:bob@" + wService +
		">\r\nCall-ID: o1\r\nCSeq: 1 OPTIONS\r\nContent-Length: 0\r\n\r\n"
	sock.Deliver("10.0.2.2:5060", []byte(first))
	rt.Quiesce()
	rt.Assert(backendConn != nil && len(backendConn.Written) == 1, "the request reaches the TCP backend over a connection the proxy opened")
	if backendConn == nil {
		return
	}
	// the backend sends a request of its own over that connection, routed to the client
	via := "SIP/2.0/TCP 192.0.2.50:7777;branch=z9hG4bKo2;rport"
	second := "MESSAGE sip:alice@example.com SIP/2.0\r\nVia: " + via + "\r\nRoute: <sip:10.0.2.2:5060;lr>\r\nFrom: <sip:bob@" + wService + ">;tag=b\r\nTo: <sip:alice@example.com>\r\nCall-ID: o2\r\nCSeq: 1 MESSAGE\r\nContent-Length: 0\r\n\r\n"
	mark := len(fakenet.Sent)
	backendConn.Feed([]byte(second))
	rt.Quiesce()
	out := sentTo("10.0.2.2:5060", mark)
	rt.Assert(len(out) == 1, "the backend's request is relayed to the client")
	if len(out) != 1 {
		return
	}
	got := refRead(out[0]).listOf("via")
	sender := got[len(got)-1]
	if nr0 {
		rt.Assert(sender == via, "outbound connection of a no-received listener: the sender's Via is relayed as sent")
	} else {
		r, has := paramOf(sender, "received")
		rp, hasRp := paramOf(sender, "rport")
		rt.Assert(has && r == "10.0.1.1" && hasRp && rp == "5060", "outbound connection of a listener with received-support: received / rport are stamped")
	}
	rt.Reach("end")
}
