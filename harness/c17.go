package main

// C17 — header spelling and list layout do not change what the proxy does (metamorphic pairs).

import (
	"strings"

	"MODULEPATH/zzverif/rt"
)

// respell returns the name in the twin's spelling style.
//   0 canonical, 1 compact where one exists, 2 upper, 3 lower, 4 alternating case
func respell(name string, style int) string {
	switch style {
	case 1:
		return spell(name, 1)
	case 2:
		return strings.ToUpper(name)
	case 3:
		return strings.ToLower(name)
	case 6:
		return strings.ToUpper(spell(name, 1))
	case 4:
		out := ""
		for i := 0; i < len(name); i++ {
			c := name[i : i+1]
			if i%2 == 0 {
				out += strings.ToLower(c)
			} else {
				out += strings.ToUpper(c)
			}
		}
		return out
	}
	return name
}

// c17Plain: the spelling style of the non-list headers (the mixed style keeps them canonical).
func c17Plain(style int) int {
	if style == 5 {
		return 0
	}
	return style
}

// canonName maps any spelling to the canonical lower-case long form.
func canonName(n string) string {
	l := strings.ToLower(n)
	switch l {
	case "v":
		return "via"
	case "f":
		return "from"
	case "t":
		return "to"
	case "i":
		return "call-id"
	case "m":
		return "contact"
	case "c":
		return "content-type"
	case "l":
		return "content-length"
	case "k":
		return "supported"
	case "s":
		return "subject"
	}
	return l
}

type c17Out struct {
	dests  []string
	vias   []string
	routes []string
	rrs    []string
	names  []string
	values []string
	body   string
	ncl    int
	pins   int
}

// c17Comma is how the twin writes the comma of a joined list (blanks around it are not significant).
var c17Comma = ","

// c17Build writes the message with a given spelling style and list layout.
func c17Build(start string, vias, routes, rrs []string, rest [][2]string, body string, style int, joinVia, joinRoute []bool, symCase string) string {
	text := start + "\r\n"
	emit := func(name string, list []string, join []bool) {
		for i, e := range list {
			if i > 0 && join[i-1] {
				text = text[:len(text)-2] + c17Comma + e + "\r\n"
			} else if style == 5 && name == "Via" {
				// mixed: every Via line chooses its own spelling (canonical, compact, lower)
				text += respell(name, []int{0, 1, 3, 6}[rt.Choice("line-spelling", 4)]) + ": " + e + "\r\n"
			} else {
				text += respell(name, c17Plain(style)) + ": " + e + "\r\n"
			}
		}
	}
	emit("Via", vias, joinVia)
	emit("Route", routes, joinRoute)
	emit("Record-Route", rrs, []bool{false, false, false})
	for _, h := range rest {
		n := respell(h[0], c17Plain(style))
		if symCase != "" && h[0] == "Call-ID" {
			n = symCase
		}
		text += n + ": " + h[1] + "\r\n"
	}
	return text + respell("Content-Length", c17Plain(style)) + ": " + itoa(len(body)) + "\r\n\r\n" + body
}

func c17Run(text string, path int) (c17Out, bool) {
	var o c17Out
	w := newWorld(worldOpts{nBackends: 1, keepNextHop: true})
	src := "10.0.2.2"
	if path == 2 {
		src = "10.0.1.1"
	}
	if !w.deliver(text, src, 5060, true) {
		return o, false
	}
	for _, s := range w.sentAll() {
		o.dests = append(o.dests, s.dest)
		m := refRead(s.bytes)
		for _, v := range m.listOf("via") {
			o.vias = append(o.vias, maskBranch(v)) // the proxy's own branch is random per run
		}
		o.routes = append(o.routes, m.listOf("route")...)
		o.rrs = append(o.rrs, m.listOf("record-route")...)
		for i, n := range m.names {
			switch hdrKind(n) {
			case "":
				o.names = append(o.names, canonName(n))
				o.values = append(o.values, m.values[i])
			case "content-length":
				o.ncl++
			}
		}
		o.body = m.body
	}
	o.pins = len(w.p.dialogBasedBackends.backends)
	return o, true
}

func sameList(a, b []string, label string) {
	rt.Assert(len(a) == len(b), label+": same number of elements")
	if len(a) == len(b) {
		for i := range a {
			rt.Assert(a[i] == b[i], label+": same elements in the same order")
		}
	}
}

// VC17_Twins: a message and its respelled / re-laid-out twin through the pipeline from identical
// states: same destination, same decoded Via/Route/Record-Route stacks, same pin decision, same
// remaining headers (up to the spellings), one Content-Length, same body.
func VC17_Twins() {
	L := rt.Param("L")
	path := rt.Choice("path", 3) // 0 request to backend, 1 request by Route, 2 INVITE response from the backend (pins the dialog)
	nv := rt.Choice("nvia", 2) + 2
	var vias, routes, rrs []string
	for i := 0; i < nv; i++ {
		h := "10.0.2." + itoa(2+i)
		if path == 2 && i == 0 {
			h = wListenAddr
		}
		vias = append(vias, "SIP/2.0/UDP "+h+":5060;branch=z9hG4bK"+rt.Str("br", "alnum", 1, L))
	}
	start := "INVITE sip:bob@" + wService + " SIP/2.0"
	switch path {
	case 1:
		start = "INVITE sip:bob@far.example.net SIP/2.0"
		hop := "10.0.3.3"
		if rt.Bool("spiral") {
			hop = "10.0.2.3" // the request spirals: its next hop is the host of the second Via entry (a host the proxy learns from the Via list)
		}
		routes = []string{"<sip:" + wListenAddr + ":5060;lr>", "<sip:" + hop + ":5070;lr>"}
		if rt.Bool("third-route") {
			routes = append(routes, "<sip:"+rt.Str("ruser", clsUser, 1, L)+"@10.0.3.4;lr>")
		}
	case 2:
		start = "SIP/2.0 200 OK"
	}
	if rt.Bool("record-route") {
		rrs = []string{"<sip:10.0.8.1;lr>"}
	}
	rest := [][2]string{
		{"From", "<sip:alice@example.com>;tag=" + rt.Str("ftag", clsToken, 1, L)},
		{"To", "<sip:bob@" + wService + ">;tag=" + rt.Str("ttag", clsToken, 1, L)},
		{"Call-ID", rt.Str("callid", clsCallID, 1, L)},
		{"CSeq", "1 INVITE"},
		{"Contact", "<sip:alice@10.0.2.2>"},
		{"Content-Type", "application/sdp"},
		{"Subject", rt.Str("subj", clsValue+"-[ \\t\\x0b\\x0c\\x80-\\xff]", 1, L)},
	}
	body := rt.Str("body", "any", 0, L)
	none := []bool{false, false, false}
	base := c17Build(start, vias, routes, rrs, rest, body, 0, none, none, "")
	style := rt.Choice("style", 6) + 1 // 5: mixed spellings of the Via lines inside one message, 6: upper-case compact forms
	joinV := []bool{rt.Bool("join-via"), rt.Bool("join-via"), false}
	joinR := []bool{false, false, false}
	if path == 1 {
		joinR = []bool{rt.Bool("join-route"), rt.Bool("join-route"), false}
	}
	sym := ""
	if rt.Param("SC") > 0 && rt.Bool("symbolic-case") {
		for _, c := range []string{"c", "a", "l", "l", "-", "i", "d"} {
			if c == "-" {
				sym += c
			} else {
				sym += rt.Str("case", "["+c+strings.ToUpper(c)+"]", 1, 1) // each letter in either case
			}
		}
	}
	c17Comma = []string{",", ", "}[rt.Choice("comma-blank", 2)]
	twin := c17Build(start, vias, routes, rrs, rest, body, style, joinV, joinR, sym)
	c17Comma = ","
	a, okA := c17Run(base, path)
	b, okB := c17Run(twin, path)
	rt.Assert(okA && okB, "both spellings decode")
	if !okA || !okB {
		return
	}
	rt.Assert(len(a.dests) == 1, "the base message is relayed once")
	sameList(a.dests, b.dests, "destination")
	sameList(a.vias, b.vias, "decoded Via stack")
	sameList(a.routes, b.routes, "decoded Route stack")
	sameList(a.rrs, b.rrs, "decoded Record-Route stack")
	sameList(a.names, b.names, "remaining header names (canonicalised)")
	sameList(a.values, b.values, "remaining header values")
	rt.Assert(a.ncl == 1 && b.ncl == 1, "exactly one Content-Length in both")
	rt.Assert(a.body == b.body, "same body")
	rt.Assert(a.pins == b.pins, "same dialog pinning decision")
	rt.Reach("end")
}
