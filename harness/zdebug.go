package main

import "MODULEPATH/zzverif/rt"

func VDBG_Itoa() {
	status := rt.Int("status", 100, 699)
	s := "SIP/2.0 " + itoa(status) + " OK"
	rt.Observe("s", s)
	rt.Reach("end")
}
