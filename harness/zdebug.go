package main

import "MODULEPATH/zzverif/rt"

func VDBG_Itoa() {
	status := rt.Int("status", 100, 699)
	s := "SIP/2.0 " + itoa(status) + " OK"
	rt.Observe("s", s)
	rt.Reach("end")
}

func VDBG_CL() {
	rt.AllocLimit(1 << 20)
	text := "INVITE sip:a@b SIP/2.0\r\nContent-Length: " + rt.Str("cl", "digit", 1, 12) + "\r\n\r\n"
	m, err := parseText(text)
	if err == nil {
		_ = m.String()
	}
	rt.Reach("end")
}
