package main

// C08 — no network input can crash, wedge or balloon the proxy.
// A feasible panic anywhere is reported by the executor itself as a violation ("panic: ...");
// a loop that does not terminate within the unwinding bound makes the check inconclusive.

import (
	"MODULEPATH/zzverif/fakenet"
	"MODULEPATH/zzverif/rt"
)

// VC08_RawParsers: every typed parser on arbitrary bytes (no grammar), followed by String()
// and the accessors the proxy uses.
func VC08_RawParsers() {
	N := rt.Param("N")
	s := rt.Str("raw", "any", 0, N)
	switch rt.Choice("parser", 11) {
	case 0:
		if v, err := ParseVia(s); err == nil {
			_ = v.String()
			for i := 0; i < v.Size(); i++ {
				p, _ := v.GetParam(i)
				p.GetPort()
				p.GetBranch()
				p.GetReceived()
				p.GetRPort()
				p.GetSentBy()
			}
		}
	case 1:
		if r, err := ParseRoute(s); err == nil {
			_ = r.String()
			if p, err := r.GetRouteParam(0); err == nil {
				if u, err := p.GetAddress().GetAddress().GetSIPURI(); err == nil {
					u.GetPort()
					u.GetTransport()
				}
			}
		}
	case 2:
		if r, err := ParseRecordRoute(s); err == nil {
			_ = r.String()
		}
	case 3:
		if f, err := ParseFromSpec(s); err == nil {
			_ = f.String()
			f.GetTag()
			f.GetAddrSpec()
		}
	case 4:
		if t, err := ParseTo(s); err == nil {
			_ = t.String()
			t.GetTag()
			t.GetHost()
			t.GetUserHost()
			t.GetAbsoluteURI()
		}
	case 5:
		if n, err := ParseNameAddr(s); err == nil {
			_ = n.String()
		}
	case 6:
		if a, err := ParseAddrSpec(s); err == nil {
			_ = a.String()
		}
	case 7:
		if u, err := ParseSipURI(s); err == nil {
			_ = u.String()
			u.GetPort()
		}
	case 8:
		if c, err := ParseCSeq(s); err == nil {
			_ = c.String()
		}
	case 9:
		if r, err := parseRequestLine(s); err == nil {
			_ = r.method
		}
	case 10:
		if r, err := parseStatusLine(s); err == nil {
			_ = r.reason
		}
	}
	rt.Reach("end")
}

// VC08_RawMessage: ParseMessage on a line skeleton: 1..K lines of arbitrary bytes (no LF inside
// a line, CR optional) plus an arbitrary tail. No panic, and no allocation out of proportion to
// the bytes received.
func VC08_RawMessage() {
	N, K := rt.Param("N"), rt.Param("K")
	rt.AllocLimit(1 << 20)
	text := ""
	switch rt.Choice("startline", 3) {
	case 0:
		text = "INVITE sip:a@b SIP/2.0\r\n"
	case 1:
		text = "SIP/2.0 200 OK\n"
	}
	k := rt.Choice("lines", K+1)
	for i := 0; i < k; i++ {
		text += rt.Str("line", "[^\\n]", 0, N) + "\n"
	}
	if rt.Bool("content-length-line") {
		text += "Content-Length:" + rt.Str("cl", "[0-9 +-]", 0, N+12) + "\r\n"
	}
	text += "\r\n" + rt.Str("tail", "any", 0, N)
	m, err := parseText(text)
	if err == nil {
		_ = m.String()
	}
	rt.Reach("end")
}

// c08Hostile builds a structurally valid message with one hostile field.
func c08Hostile(N int) (text string, response bool) {
	kind := rt.Choice("hostile", 11)
	forceResponse := false
	via := "SIP/2.0/UDP 10.0.2.2:5060;branch=z9hG4bKa"
	from := "<sip:alice@example.com>;tag=a"
	to := "<sip:bob@" + wService + ">"
	callid := "c1"
	cseq := "1 INVITE"
	cl := "0"
	route := ""
	ruri := "sip:bob@" + wService
	extra := ""
	switch kind {
	case 0:
		cl = rt.Str("cl", "[0-9+-]", 0, 20) // absurd, negative, empty
	case 1:
		via = "SIP/2.0/" + rt.Str("vt", "[A-Za-z]", 1, 3) + " " + rt.Str("viahost", "[\\[\\]:a-z0-9.]", 0, N) + ";branch=z9hG4bKa"
	case 2:
		via = rt.Str("rawvia", "[^\\r\\n]", 0, N)
	case 3:
		from = rt.Str("rawfrom", "[^\\r\\n]", 0, N)
	case 4:
		to = rt.Str("rawto", "[^\\r\\n]", 0, N)
	case 5:
		route = "Route: " + rt.Str("rawroute", "[^\\r\\n]", 0, N) + "\r\n"
	case 6:
		cseq = rt.Str("rawcseq", "[^\\r\\n]", 0, N)
	case 7:
		ruri = rt.Str("rawuri", "[^ \\t\\r\\n\\x0b\\x0c\\x80-\\xff]", 1, N)
	case 9:
		// a response whose NEXT hop (the entry below the proxy's own) is unusable: odd host, port
		// beyond 65535, odd received / rport
		forceResponse = true
		host, port, params := "10.0.2.7", ":5060", ""
		switch rt.Choice("aspect", 4) { // one unusable aspect at a time
		case 0:
			host = rt.Str("nexthost", "[\\[\\]:a-z0-9.]", 0, N)
			if rt.Bool("noport") {
				port = ""
			}
		case 1:
			port = ":" + rt.Str("nextportdigits", "digit", 0, 6)
		case 2:
			params = ";received=" + rt.Str("nextrecv", "[\\[\\]:a-z0-9.]", 0, N)
		case 3:
			params = ";received=10.0.2.8;rport=" + rt.Str("nextrportdigits", "digit", 0, 6)
		}
		via = "SIP/2.0/UDP 10.0.0.9:5060;branch=z9hG4bKown\r\nVia: SIP/2.0/" + []string{"UDP", "TCP"}[rt.Choice("nexttransport", 2)] + " " + host + port + ";branch=z9hG4bKc" + params
	case 10:
		// a request whose Route names an unusable next hop
		host, port := "10.0.2.7", "5060"
		if rt.Bool("route-host-odd") {
			host = rt.Str("routehost", "[\\[\\]:a-z0-9.]", 0, N)
		} else {
			port = rt.Str("routeportdigits", "digit", 0, 6)
		}
		route = "Route: <sip:" + host + ":" + port + ";lr" + []string{"", ";transport=tcp"}[rt.Choice("routetransport", 2)] + ">\r\n"
	case 8:
		// missing / repeated mandatory headers
		switch rt.Choice("structure", 5) {
		case 0:
			via = ""
		case 1:
			from = ""
		case 2:
			callid = ""
		case 3:
			cseq = ""
		case 4:
			extra = "Via: SIP/2.0/UDP 10.0.2.3\r\nVia: x\r\nTo: y\r\nFrom: z\r\nCSeq: q\r\nCall-ID: c2\r\nCall-ID: c3\r\n"
		}
	}
	response = forceResponse || rt.Bool("response")
	start := "INVITE " + ruri + " SIP/2.0"
	if response {
		start = "SIP/2.0 " + rt.Str("status", "[0-9-]", 1, 4) + " OK"
	}
	text = start + "\r\n"
	if via != "" {
		text += "Via: " + via + "\r\n"
	}
	text += route
	if from != "" {
		text += "From: " + from + "\r\n"
	}
	text += "To: " + to + "\r\n"
	if callid != "" {
		text += "Call-ID: " + callid + "\r\n"
	}
	if cseq != "" {
		text += "CSeq: " + cseq + "\r\n"
	}
	text += extra + "Content-Length: " + cl + "\r\n\r\n"
	return
}

// VC08_Pipeline: hostile messages through the whole pipeline (decode, learn, stamp, route, pin,
// relay) on the UDP and TCP paths, requests and responses; afterwards a well-formed sentinel
// request is still relayed (the message loop is alive).
func VC08_Pipeline() {
	N := rt.Param("N")
	rt.AllocLimit(1 << 20)
	w := newWorld(worldOpts{nBackends: 1, tcpListener: rt.Bool("tcp")})
	text, _ := c08Hostile(N)
	support := rt.Bool("received-support")
	if w.listener.proto == "TCP" {
		conn := fakenet.NewTCPConn(wListenAddr+":5060", "10.0.2.2:40000")
		w.deliverTCP(text, conn, "10.0.2.2", 40000, support)
	} else {
		w.deliver(text, "10.0.2.2", 5060, support)
	}
	before := len(w.bs[0].sent)
	sentinel := "OPTIONS sip:probe@" + wService + " SIP/2.0\r\nVia: SIP/2.0/UDP 10.0.2.9:5060;branch=z9hG4bKsentinel\r\nFrom: <sip:s@example.com>;tag=s\r\nTo: <sip:probe@" + wService +
		">\r\nCall-ID: sentinel\r\nCSeq: 1 OPTIONS\r\nContent-Length: 0\r\n\r\n"
	rt.Assert(w.deliver(sentinel, "10.0.2.9", 5060, true), "sentinel decodes")
	rt.Assert(len(w.bs[0].sent) == before+1, "the proxy keeps serving: the sentinel request is relayed after the hostile message")
	// ... and so is a response, which leaves through the client transport table
	mark := len(fakenet.Sent)
	sentinel2 := "SIP/2.0 200 OK\r\nVia: SIP/2.0/UDP 10.0.0.9:5060;branch=z9hG4bKown2\r\nVia: SIP/2.0/UDP 10.0.2.9:5062;branch=z9hG4bKsentinel2\r\nFrom: <sip:s@example.com>;tag=s\r\nTo: <sip:probe@" + wService +
		">;tag=t\r\nCall-ID: sentinel2\r\nCSeq: 1 OPTIONS\r\nContent-Length: 0\r\n\r\n"
	rt.Assert(w.deliver(sentinel2, "10.0.1.1", 5060, true), "sentinel response decodes")
	n2 := 0
	for i, d := range fakenet.Sent {
		if i >= mark && d.Remote == "10.0.2.9:5062" {
			n2++
		}
	}
	rt.Assert(n2 == 1, "the proxy keeps serving: the sentinel response is relayed after the hostile message")
	rt.Reach("end")
}

// VC08_UDPServing: undecodable input on the real UDP transport (over-declared body, cut header section, keep-alive),
// then a burst of well-formed datagrams while the parse loop lags behind the receive loop: the proxy keeps serving —
// every datagram of the burst is delivered exactly once and intact (same scenario as VC10_Burst, read for C08's
// "keeps serving the traffic that follows").
func VC08_UDPServing() { VC10_Burst() }
