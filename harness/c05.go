package main

// C05 — unpinned requests rotate evenly over the backends registered right now.

import (
	"MODULEPATH/zzverif/rt"
)

func c05Backends() []*vBackend {
	return []*vBackend{{addr: "10.0.0.1:5060"}, {addr: "10.0.0.2:5060"}, {addr: "10.0.0.3:5060"}, {addr: "10.0.0.4:5060"}}
}

func totalSent(bs []*vBackend) int {
	n := 0
	for _, b := range bs {
		n += len(b.sent)
	}
	return n
}

// VC05_Histories: every sequence of add / remove / dispatch of length K over 4 addresses, from
// an arbitrary (symbolic) rotation index.
func VC05_Histories() {
	K := rt.Param("K")
	bs := c05Backends()
	rr := NewRoundRobinBackend()
	rr.index = rt.Int("index", 0, 1000000)
	present := []bool{false, false, false, false}
	npresent := 0
	var window []int // receivers of the dispatches since the last membership change
	msg := NewMessage()
	for step := 0; step < K; step++ {
		switch rt.Choice("op", 3) {
		case 0: // add an address that is not present
			i := rt.Choice("which", 4)
			rt.Assume(!present[i])
			rr.AddBackend(bs[i])
			present[i] = true
			npresent++
			window = nil
		case 1: // remove any address, present or not
			i := rt.Choice("which", 4)
			closedBefore := bs[i].closed
			rr.RemoveBackend(bs[i].addr)
			if present[i] {
				rt.Assert(bs[i].closed == closedBefore+1, "a removed backend is closed")
				present[i] = false
				npresent--
				window = nil
			}
			_, err := rr.GetBackend(bs[i].addr)
			rt.Assert(err != nil, "a removed backend is no longer registered")
		case 2: // dispatch
			before := make([]int, 4)
			for i, b := range bs {
				before[i] = len(b.sent)
			}
			err := rr.Send(msg)
			got := -1
			count := 0
			for i, b := range bs {
				if len(b.sent) != before[i] {
					got = i
					count += len(b.sent) - before[i]
				}
			}
			if npresent == 0 {
				rt.Assert(err != nil && count == 0, "no backend registered: the request is dropped with an error")
				continue
			}
			rt.Assert(err == nil && count == 1, "a dispatch reaches exactly one backend")
			if count != 1 {
				return
			}
			rt.Assert(present[got], "a dispatch goes to a backend registered at that moment")
			// strict rotation: the last n dispatches since the last change are pairwise distinct
			lo := len(window) - (npresent - 1)
			if lo < 0 {
				lo = 0
			}
			for _, w := range window[lo:] {
				rt.Assert(w != got, "strict rotation: k consecutive dispatches over k backends are pairwise distinct")
			}
			window = append(window, got)
		}
	}
	rt.ObserveInt("total", totalSent(bs))
	rt.Reach("end")
}

// VC05_Step: one operation from an arbitrary valid state (n members, any index): covers
// histories of any length by induction on the representation invariant
// "list and map hold the same members, index >= 0".
func VC05_Step() {
	bs := c05Backends()
	n := rt.Choice("members", 5)
	rr := NewRoundRobinBackend()
	for i := 0; i < n; i++ {
		rr.backends = append(rr.backends, bs[i])
		rr.backendMap[bs[i].addr] = bs[i]
	}
	rr.index = rt.Int("index", 0, 2000000000)
	msg := NewMessage()
	switch rt.Choice("op", 3) {
	case 0:
		rt.Assume(n < 4)
		rr.AddBackend(bs[n])
		rt.Assert(len(rr.backends) == n+1 && len(rr.backendMap) == n+1, "add: list and map grow together")
		b, err := rr.GetBackend(bs[n].addr)
		rt.Assert(err == nil && b == Backend(bs[n]), "add: the new backend is registered")
	case 1:
		i := rt.Choice("which", 4)
		rr.RemoveBackend(bs[i].addr)
		if i < n {
			rt.Assert(len(rr.backends) == n-1 && len(rr.backendMap) == n-1, "remove: list and map shrink together")
			rt.Assert(bs[i].closed == 1, "remove: backend closed")
			for _, b := range rr.backends {
				rt.Assert(b != Backend(bs[i]), "remove: gone from the rotation")
			}
		} else {
			rt.Assert(len(rr.backends) == n && len(rr.backendMap) == n, "remove of an absent address changes nothing")
		}
	case 2:
		// n consecutive dispatches from any index hit n pairwise distinct members
		if n == 0 {
			rt.Assert(rr.Send(msg) != nil, "no backend: error")
			rt.Assert(totalSent(bs) == 0, "no backend: nothing sent")
		}
		for k := 0; k < n; k++ {
			rt.Assert(rr.Send(msg) == nil, "dispatch succeeds")
		}
		for i := 0; i < 4; i++ {
			if i < n {
				rt.Assert(len(bs[i].sent) == 1, "n dispatches over n backends reach each exactly once")
			} else {
				rt.Assert(len(bs[i].sent) == 0, "a non-member receives nothing")
			}
		}
	}
	rt.Assert(rr.index >= 0, "invariant: index stays non-negative")
	rt.Reach("end")
}

// VC05_Racing: a dispatch races with a membership change made from another thread, through the
// real message loop (the pool notifies the proxy of the change while it holds its lock; the loop
// takes the same lock to dispatch). Whatever the order: the change returns, the request reaches a
// backend registered at that moment, and the next requests keep rotating over the new set.
func VC05_Racing() {
	rt.SchedPolicy(rt.Choice("sched-policy", 2))
	rt.SelectChoice(true)
	w := newWorld(worldOpts{nBackends: 2})
	extra := &vBackend{addr: "10.0.1.3:5060"}
	add := rt.Bool("add")
	w.rr.index = rt.Choice("rotation", 2) // either backend may be next
	rt.Sched(rt.Param("SW"), true)        // SW forced context switches at lock / channel points, besides the blocking ones
	req := func(i int) string {
		return "OPTIONS sip:u@" + wService + " SIP/2.0\r\nVia: SIP/2.0/UDP 10.0.2.2:5060;branch=z9hG4bKr" + itoa(i) + "\r\nFrom: <sip:alice@example.com>;tag=a\r\nTo: <sip:u@" + wService +
			">\r\nCall-ID: r" + itoa(i) + "\r\nCSeq: 1 OPTIONS\r\nContent-Length: 0\r\n\r\n"
	}
	done := make(chan bool, 1)
	m0, _ := parseText(req(0))
	changeFirst := rt.Bool("change-started-first")
	change := func() {
		if add {
			w.rr.AddBackend(extra)
		} else {
			w.rr.RemoveBackend(w.bs[0].addr)
		}
		done <- true
	}
	if changeFirst {
		go change()
	}
	w.p.HandleRawMessage(NewRawMessage("10.0.2.2", 5060, w.listener, true, m0))
	if !changeFirst {
		go change()
	}
	rt.Quiesce()
	rt.Assert(len(done) == 1, "racing: the membership change returns")
	all := append(append([]*vBackend{}, w.bs...), extra)
	total := 0
	for _, b := range all {
		total += len(b.sent)
	}
	rt.Assert(total == 1, "racing: the request reaches exactly one backend")
	if !add {
		// (the removed backend may still have received the racing request — but only while it was registered: the pool
		// closes a backend when it removes it, and a closed backend is handed nothing)
		rt.Assert(len(w.bs[0].sent) <= 1, "racing: nothing is sent twice")
		rt.Assert(w.bs[0].afterClose == 0, "racing: a dispatch goes to a backend registered at that moment, never to one the pool has already closed")
	}
	// afterwards the rotation runs over the new set: n further requests reach each member once
	members := []*vBackend{w.bs[1]}
	if add {
		members = []*vBackend{w.bs[0], w.bs[1], extra}
	}
	before := make([]int, len(members))
	for i, b := range members {
		before[i] = len(b.sent)
	}
	removedBefore := len(w.bs[0].sent)
	for i := 0; i < len(members); i++ {
		rt.Assert(w.deliver(req(i+1), "10.0.2.2", 5060, true), "request decodes")
	}
	for i, b := range members {
		rt.Assert(len(b.sent) == before[i]+1, "racing: afterwards every current backend gets its turn")
	}
	if !add {
		rt.Assert(len(w.bs[0].sent) == removedBefore, "racing: the removed backend receives nothing further")
	}
	rt.Reach("end")
}
