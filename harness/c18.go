package main

// C18 — static route lookup has fixed precedence and a stable answer.

import (
	"strings"

	"MODULEPATH/zzverif/rt"
)

// "o*.com" and "m.*" sort after the word "default", "m.a.com" is a literal that does
var c18Universe = []string{"a.com", "*.a.com", "a.*", "*", "default", "aXa.com", "*.com", "b.a.com", "a.co*", "o*.com", "m.*"}

// refMatch: '*' stands for any character sequence, '.' only for itself (reference semantics,
// written without regular expressions). Patterns of the universe have at most one '*'.
func refMatch(pattern, host string) bool {
	i := strings.IndexByte(pattern, '*')
	if i < 0 {
		return host == pattern
	}
	pre, suf := pattern[:i], pattern[i+1:]
	return rt.And(len(host) >= len(pre)+len(suf), strings.HasPrefix(host, pre), strings.HasSuffix(host, suf))
}

// VC18_FindRoute: every table of 1..N entries of the universe, symbolic host, two lookups with
// independent map iteration orders.
func VC18_FindRoute() {
	L, N, U := rt.Param("L"), rt.Param("N"), rt.Param("U")
	// choose an increasing sequence of pattern indices
	var pats []string
	next := 0
	n := rt.Choice("n", N) + 1
	for i := 0; i < n; i++ {
		rt.Assume(next < U)
		k := next + rt.Choice("pat", U-next)
		pats = append(pats, c18Universe[k])
		next = k + 1
	}
	host := rt.Str("host", "[a-cXo0m.-]", 1, L)
	table := NewPreConfigRoute()
	for i, p := range pats {
		table.AddRouteItem("udp", p, "hop"+itoa(i)+":"+itoa(6000+i))
	}
	rt.MapOrder(true)
	_, h1, p1, err1 := table.FindRoute(host)
	_, h2, p2, err2 := table.FindRoute(host)
	rt.MapOrder(false)
	if !rt.Symbolic() {
		// natively the iteration order cannot be forced: repeat the lookup (the property: 50 times)
		for i := 0; i < 50 && h1 == h2 && p1 == p2 && (err1 == nil) == (err2 == nil); i++ {
			_, h2, p2, err2 = table.FindRoute(host)
		}
	}
	// reference
	exact := -1
	var wild []int
	def := -1
	for i, p := range pats {
		if host == p {
			exact = i
		}
	}
	for i, p := range pats {
		if p == "default" {
			def = i
		}
		if refMatch(p, host) {
			wild = append(wild, i)
		}
	}
	rt.Assert((err1 == nil) == (err2 == nil), "stable: both lookups agree on routability")
	if err1 == nil && err2 == nil {
		rt.Assert(h1 == h2 && p1 == p2, "stable: both lookups return the same entry")
	}
	switch {
	case exact >= 0:
		rt.Assert(err1 == nil && h1 == "hop"+itoa(exact) && p1 == 6000+exact, "literal entry wins")
	case len(wild) > 0:
		ok := false
		for _, i := range wild {
			if err1 == nil && h1 == "hop"+itoa(i) && p1 == 6000+i {
				ok = true
			}
		}
		rt.Assert(ok, "a matching wildcard entry is used before default")
	case def >= 0:
		rt.Assert(err1 == nil && h1 == "hop"+itoa(def), "default entry is used when nothing matches")
	default:
		rt.Assert(err1 != nil, "not statically routable")
	}
	rt.Reach("end")
}

// VC18_History: the answer for a host does not depend on what was looked up before: host, other
// host(s), host again — for every table of 1..N entries and symbolic hosts.
func VC18_History() {
	L, N, U, M := rt.Param("L"), rt.Param("N"), rt.Param("U"), rt.Param("M")
	var pats []string
	next := 0
	n := rt.Choice("n", N) + 1
	for i := 0; i < n; i++ {
		rt.Assume(next < U)
		k := next + rt.Choice("pat", U-next)
		pats = append(pats, c18Universe[k])
		next = k + 1
	}
	host := rt.Str("host", "[a-cXo0m.-]", 1, L)
	table := NewPreConfigRoute()
	for i, p := range pats {
		table.AddRouteItem("udp", p, "hop"+itoa(i)+":"+itoa(6000+i))
	}
	pr1, h1, p1, err1 := table.FindRoute(host)
	for i := 0; i < M; i++ {
		table.FindRoute(rt.Str("other", "[a-cXo0m.-]", 1, L))
	}
	pr2, h2, p2, err2 := table.FindRoute(host)
	rt.Assert((err1 == nil) == (err2 == nil), "stable across other lookups: routability")
	if err1 == nil && err2 == nil {
		rt.Assert(h1 == h2 && p1 == p2 && pr1 == pr2, "stable across other lookups: same entry")
	}
	rt.Reach("end")
}

// VC18_NextHop: host[:port] next hops for udp / tcp / tls.
func VC18_NextHop() {
	L := rt.Param("L")
	proto := []string{"udp", "tcp", "tls", "TLS", "TCP"}[rt.Choice("proto", 5)]
	hop := rt.Str("hop", clsHost, 1, L)
	text := hop
	port := ""
	if rt.Bool("hasport") {
		port = genPort()
		text += ":" + port
	}
	table := NewPreConfigRoute()
	err := table.AddRouteItem(proto, "x.example", text)
	rt.Assert(err == nil, "route item accepted")
	if err != nil {
		return
	}
	pr, h, p, err := table.FindRoute("x.example")
	rt.Assert(err == nil && pr == proto && h == hop, "next hop host and protocol")
	if port != "" {
		rt.Assert(itoa(p) == port, "explicit next-hop port")
	} else if strings.EqualFold(proto, "tls") {
		rt.Assert(p == 5061, "default port 5061 for tls")
	} else {
		rt.Assert(p == 5060, "default port 5060")
	}
	rt.Reach("end")
}
