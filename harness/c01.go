package main

// C01 — relaying leaves everything the proxy does not own untouched.

import (
	"strings"

	"MODULEPATH/zzverif/fakenet"
	"MODULEPATH/zzverif/rt"
)

type gHeader struct {
	name  string
	value string // as it must arrive (surrounding blanks removed)
	line  string
}

// genValue: a header field value of 0..L bytes (any byte but CR/LF) whose first and last bytes
// are not blanks, optionally wrapped in blanks on the wire.
func genValue(L int) (wire, core string) {
	switch rt.Choice("vshape", 3) {
	case 0:
		core = ""
	case 1:
		core = rt.Str("v1", "nocrlf-[ \\t\\x0b\\x0c\\xc2\\xe1\\xe2\\xe3\\x80-\\xbf]", 1, 1)
	default:
		core = rt.Str("vf", "nocrlf-[ \\t\\x0b\\x0c\\xc2\\xe1\\xe2\\xe3]", 1, 1) + rt.Str("vm", clsValue, 0, L) + rt.Str("vl", "nocrlf-[ \\t\\x0b\\x0c\\x80-\\xbf]", 1, 1)
	}
	wire = core
	if rt.Bool("padded") {
		wire = " \t" + core + "  "
	}
	return
}

// genExtHeader: an extension header: arbitrary token name "X-<atom>", a known but unmanaged
// header in canonical / compact / odd-case spelling, or a repetition of the previous name.
func genExtHeader(L int, prev string) gHeader {
	var h gHeader
	switch rt.Choice("hname", 6) {
	case 5:
		// a header the proxy reads (Expires) but does not own: any spelling of the number must survive
		h.name = "Expires"
		h.value = rt.Str("expires", "[0-9+]", 1, L+1)
		h.line = h.name + ": " + h.value + "\r\n"
		return h
	case 0:
		h.name = "X-" + rt.Str("hn", clsToken, 1, L)
	case 1:
		h.name = "Contact"
	case 2:
		h.name = "m"
	case 3:
		h.name = "sUbJeCt"
	case 4:
		if prev != "" {
			h.name = prev
		} else {
			h.name = "Allow"
		}
	}
	wire, core := genValue(L)
	h.value = core
	h.line = h.name + ":" + wire + "\r\n"
	return h
}

// checkRelayed compares a relayed message with the received one, header by header, using the
// reference reader: start line, every non-managed header (name, trimmed value, multiplicity,
// relative order), exactly one Content-Length equal to the body length, body.
func checkRelayed(out string, start string, hs []gHeader, body string) {
	m := refRead(out)
	rt.Assert(m.ok, "relayed bytes form a message (header section, blank line, body)")
	if !m.ok {
		return
	}
	rt.Assert(m.start == start, "start line unchanged")
	var names, values []string
	ncl := 0
	clv := ""
	for i, n := range m.names {
		switch hdrKind(n) {
		case "":
			names = append(names, n)
			values = append(values, m.values[i])
		case "content-length":
			ncl++
			clv = m.values[i]
		}
	}
	rt.Assert(ncl == 1, "exactly one Content-Length field")
	rt.Assert(clv == itoa(len(body)), "Content-Length equals the number of body bytes sent")
	rt.Assert(m.body == body, "body bytes unchanged")
	rt.Assert(len(names) == len(hs), "no header added or dropped")
	if len(names) == len(hs) {
		for i, h := range hs {
			rt.Assert(names[i] == h.name, "header names and order unchanged")
			rt.Assert(values[i] == h.value, "header values unchanged")
		}
	}
}

// VC01_Relay: request to a backend / by Route / by static route, and response by Via.
func VC01_Relay() {
	L, K, B := rt.Param("L"), rt.Param("K"), rt.Param("B")
	path := rt.Choice("path", 4) // 0 backend, 1 Route, 2 static route, 3 response
	tcp := false
	if path != 0 {
		tcp = rt.Bool("tcp-next-hop")
	}
	proto, viaProto, trParam := "udp", "UDP", ""
	if tcp {
		proto, viaProto, trParam = "tcp", "TCP", ";transport=tcp"
	}
	// R = 1 (configurations with more extension headers): one listener configuration instead of eight
	tcpListener, must, keep := false, false, false
	if rt.Param("R") == 0 {
		tcpListener, must, keep = rt.Bool("tcp-listener"), rt.Bool("must-record-route"), rt.Bool("keep-next-hop")
	}
	w := newWorld(worldOpts{nBackends: 1, routes: [][3]string{{proto, "static.example.org", "10.0.3.3:5070"}},
		tcpListener: tcpListener, mustRecordRoute: must, keepNextHop: keep})
	// a TCP next hop whose first connection breaks in the middle of the write: the relayed bytes must
	// still arrive unchanged (on the connection that replaces it)
	if tcp && rt.Param("R") == 0 && !tcpListener && !must && !keep && rt.Bool("first-connection-breaks") {
		k := rt.Int("accepted-before-breaking", 0, 60)
		first := true
		fakenet.DialHook = func(network, address string) (fakenet.Conn, error) {
			c := fakenet.NewTCPConn(wListenAddr+":40000", address)
			if first {
				first = false
				c.FailWrites, c.FailAccept = 1, k
			}
			return c, nil
		}
	}
	// mandatory headers are part of "everything the proxy does not own"
	var hs []gHeader
	add := func(name, value string) {
		hs = append(hs, gHeader{name: name, value: value, line: name + ": " + value + "\r\n"})
	}
	start := ""
	head := ""
	callID := rt.Str("callid", clsCallID, 1, L)
	switch path {
	case 0:
		// the request is for the service by name, or by the listener's own address (with / without its port)
		rhost := []string{wService, wListenAddr, wListenAddr + ":" + itoa(wListenPort), wService + ";transport=udp"}[rt.Choice("ruri-form", 4)]
		start = rt.Str("method", clsToken+"-[%]", 1, L) + " sip:" + rt.Str("ruser", clsUser, 1, L) + "@" + rhost + " SIP/2.0"
		head = "Via: SIP/2.0/UDP 10.0.2.2:5060;branch=z9hG4bKa\r\n"
	case 1:
		start = "INVITE sip:bob@" + rt.Str("rhost", clsHost, 1, L) + ".example.net SIP/2.0"
		head = "Via: SIP/2.0/UDP 10.0.2.2:5060;branch=z9hG4bKa\r\nRoute: <sip:10.0.3.3:5070;lr" + trParam + ">\r\n"
	case 2:
		start = "INVITE sip:bob@static.example.org SIP/2.0"
		head = "Via: SIP/2.0/UDP 10.0.2.2:5060;branch=z9hG4bKa\r\n"
	case 3:
		start = "SIP/2.0 " + itoa(rt.Int("status", 100, 699)) + " " + rt.Str("reason", "alnum", 1, L)
		head = "Via: SIP/2.0/UDP 10.0.0.9:5060;branch=z9hG4bKp\r\nVia: SIP/2.0/" + viaProto + " 10.0.2.2:5060;branch=z9hG4bKa\r\n"
	}
	to := "<sip:bob@static.example.org>"
	if path != 2 {
		to = "<sip:bob@" + rt.Str("tohost", clsHost, 1, L) + ".nowhere.example.net>;tag=" + rt.Str("totag", clsToken, 1, L)
	}
	// the headers the proxy decodes for routing are not its own either: their names reach the next hop as spelled
	// (compact forms, odd case) — varied on the plain listener configuration
	core := []string{"From", "To", "Call-ID", "CSeq"}
	if !tcpListener && !must && !keep && rt.Bool("core-headers-respelled") {
		core = []string{"f", "t", "i", "CSEQ"}
	}
	add(core[0], "\"A\" <sip:alice@"+rt.Str("fromhost", clsHost, 1, L)+".example.com>;tag="+rt.Str("fromtag", clsToken, 1, L))
	add(core[1], to)
	add(core[2], callID)
	add(core[3], "1 INVITE")
	k := rt.Choice("next", K+1)
	prev := ""
	for i := 0; i < k; i++ {
		h := genExtHeader(L, prev)
		hs = append(hs, h)
		prev = h.name
	}
	body := rt.Str("body", "any", 0, B)
	text := start + "\r\n" + head
	for _, h := range hs {
		text += h.line
	}
	text += spell("Content-Length", rt.Choice("clspell", 4)) + ": " + itoa(len(body)) + "\r\n\r\n" + body
	src := "10.0.2.2"
	if path == 3 && rt.Bool("from-backend") {
		src = "10.0.1.1" // the response comes from the backend's configured address (dialog pinning path)
	}
	ok := w.deliver(text, src, 5060, true)
	rt.Assert(ok, "well-formed message decodes")
	if !ok {
		return
	}
	sent := w.sentAll()
	rt.Assert(len(sent) == 1, "relayed exactly once")
	if len(sent) != 1 {
		return
	}
	want := []string{"backend:10.0.1.1:5060", proto + ":10.0.3.3:5070", proto + ":10.0.3.3:5070", proto + ":10.0.2.2:5060"}[path]
	rt.Assert(sent[0].dest == want, "relayed to the expected next hop")
	checkRelayed(sent[0].bytes, start, hs, body)
	rt.Observe("relayed", maskBranch(sent[0].bytes))
	rt.Reach("end")
}

var _ = strings.Index

// VC01_Pipelined: two requests with bodies arrive back to back on one TCP connection through the
// real TCP receive loop and the real message loop; each is relayed with its own body, whatever
// the segmentation (a decoded message must own its bytes: the read window is reused).
func VC01_Pipelined() {
	L := rt.Param("L")
	// under load decoded messages wait in the proxy's channel while the connection is read on:
	// the message loop is started only after the whole stream has been consumed (when it lags)
	lag := rt.Bool("message-loop-lags")
	w := newWorld(worldOpts{nBackends: 1, tcpListener: true, holdLoop: lag})
	conn := fakenet.NewTCPConn(wListenAddr+":5060", "10.0.2.2:40000")
	t := NewTCPServerTransportWithConn(conn, true, w.p.selfLearnRoute)
	t.Start(w.p)
	rt.Quiesce()
	var bodies, texts []string
	stream := ""
	for i := 0; i < 2; i++ {
		b := rt.Str("body", "any", 1, L)
		bodies = append(bodies, b)
		m := "MESSAGE sip:u@" + wService + " SIP/2.0\r\nVia: SIP/2.0/TCP 10.0.2.2:40000;branch=z9hG4bKp" + itoa(i) + "\r\nFrom: <sip:alice@example.com>;tag=a\r\nTo: <sip:u@" + wService +
			">\r\nCall-ID: p" + itoa(i) + "\r\nCSeq: 1 MESSAGE\r\nX-Pad: " + rt.Str("pad", "alnum", 0, L) + "\r\nContent-Length: " + itoa(len(b)) + "\r\n\r\n" + b
		texts = append(texts, m)
		stream += m
	}
	rt.Assume(bodies[0] != bodies[1]) // distinct bodies: a mix-up must be visible
	end0 := len(texts[0])
	cut := []int{0, end0 - 1, end0, end0 + 7}[rt.Choice("cut", 4)]
	conn.Feed([]byte(stream[:cut]))
	rt.Quiesce()
	conn.Feed([]byte(stream[cut:]))
	rt.Quiesce()
	if lag {
		w.startLoop()
	}
	sent := w.bs[0].sent
	rt.Assert(len(sent) == 2, "both requests reach the backend")
	if len(sent) != 2 {
		return
	}
	for _, out := range sent {
		m := refRead(out)
		for i := 0; i < 2; i++ {
			if m.first("call-id") == "p"+itoa(i) {
				rt.Assert(m.body == bodies[i], "pipelined: body bytes unchanged")
				rt.Assert(m.first("content-length") == itoa(len(bodies[i])), "pipelined: Content-Length equals the number of body bytes sent")
			}
		}
	}
	rt.Assert(refRead(sent[0]).first("call-id") == "p0" && refRead(sent[1]).first("call-id") == "p1", "pipelined: in order")
	rt.Reach("end")
}
