package main

// C10 — a UDP datagram is processed in isolation from every other datagram.

import (
	"strconv"
	"MODULEPATH/zzverif/fakenet"
	"MODULEPATH/zzverif/rt"
)

// vHandler records what a transport delivers.
type vHandler struct {
	got []*RawMessage
}

func (h *vHandler) HandleRawMessage(msg *RawMessage) { h.got = append(h.got, msg) }
func (h *vHandler) HandleMessage(msg *Message)       {}

// genDatagram: a small message whose declared Content-Length is <, = or > the body it carries,
// optionally cut short.
func genDatagram(L int, i int) string {
	d, _ := genDatagram2(L, i)
	return d
}

// c10Short: set by genDatagram2 — the datagram declares more body bytes than it carries (decided from how it was built).
var c10Short bool

// genDatagram2 also says — from the way the datagram was built, not from any decoder — whether its header section is
// complete (the empty line that ends it is there).
func genDatagram2(L int, i int) (string, bool) {
	body := rt.Str("body", "any", 0, L)
	cl := rt.Str("cl", "digit", 1, 1)
	base := "OPTIONS sip:a@b SIP/2.0\r\nCall-ID: d" + itoa(i) + rt.Str("id", "alnum", 1, L) + "\r\nContent-Length: " + cl + "\r\n\r\n" + body
	declared, _ := strconv.Atoi(cl)
	c10Short = len(body) < declared
	switch rt.Choice("cut", 4) {
	case 1:
		c10Short = declared > 0
		return base[:len(base)-len(body)], true // body missing
	case 2:
		return base[:len(base)-len(body)-2], false // ends before the header section is complete
	case 3:
		n := rt.Int("cutpos", 0, 12)
		rt.Assume(n <= len(base))
		c10Short = n <= len(body) && len(body)-n < declared
		return base[:len(base)-n], n <= len(body)
	}
	return base, true
}

// VC10_Isolation: the real UDP server transport on a fakenet socket; K datagrams back to back
// so that receive buffers are recycled; what is delivered for each datagram must be exactly
// what the same decoder yields on that datagram's bytes alone in a fresh buffer.
func VC10_Isolation() {
	L, K := rt.Param("L"), rt.Param("K")
	fakenet.Reset()
	u, err := NewUDPServerTransport(wListenAddr, 5060, true, NewSelfLearnRoute())
	rt.Assert(err == nil, "transport created")
	if err != nil {
		return
	}
	h := &vHandler{}
	rt.RaceMonitor(true) // buffer contents: an access after the buffer went back to the pool is a race
	if rt.Bool("recycled-buffers") {
		// the pool already holds buffers used before: arbitrary stale bytes where earlier
		// (longer) datagrams were
		for k := 0; k < 2; k++ {
			dirty := make([]byte, 64*1024)
			// arbitrary stale bytes right behind a short datagram's end would explode like raw
			// input; a run of letters at every offset a datagram of this harness can end at suffices
			copy(dirty[40:], rt.Str("stale", "[a-z]", 40, 40))
			u.msgBufPool.Free(dirty)
		}
	}
	rt.Assert(u.Start(h) == nil, "transport started")
	rt.Quiesce()
	sock := fakenet.UDPConns[0]
	if rt.Bool("back-to-back") {
		// all datagrams first, no quiescence in between: receive and parse loops overlap; one
		// voluntary context switch lets the parse loop run between two receives
		rt.Sched(rt.Param("SW"), false)
		var want []string
		for i := 0; i < K; i++ {
			d, hdrComplete := genDatagram2(L, i)
			sock.Deliver("10.0.2."+itoa(i+1)+":5060", []byte(d))
			if ref, rerr := parseText(d); rerr == nil {
				rt.Assert(hdrComplete, "only a datagram whose header section is complete decodes")
				want = append(want, ref.String())
			}
		}
		rt.Quiesce()
		rt.Assert(len(h.got) == len(want), "back to back: exactly the complete datagrams are delivered")
		if len(h.got) == len(want) {
			for i := range want {
				rt.Assert(h.got[i].Message.String() == want[i], "back to back: each delivered message is a function of its own datagram")
			}
		}
		rt.Reach("end")
		return
	}
	for i := 0; i < K; i++ {
		d, hdrComplete := genDatagram2(L, i)
		before := len(h.got)
		sock.Deliver("10.0.2."+itoa(i+1)+":5060", []byte(d))
		rt.Quiesce()
		if !hdrComplete {
			// independent of the decoder: the empty line that ends the header section never arrived
			rt.Assert(len(h.got) == before, "a datagram cut inside its header section is discarded")
		} else if c10Short {
			rt.Assert(len(h.got) == before, "a datagram that declares more body bytes than it carries is discarded")
		}
		// reference: the same decoder on exactly the datagram's bytes in a fresh buffer
		ref, rerr := parseText(d)
		if rerr != nil {
			rt.Assert(len(h.got) == before, "an incomplete datagram (short body or unfinished header section) is discarded, not completed from elsewhere")
			continue
		}
		rt.Assert(len(h.got) == before+1, "a complete datagram is delivered exactly once")
		if len(h.got) != before+1 {
			return
		}
		got := h.got[before]
		rt.Assert(got.Message.String() == ref.String(), "what is delivered is a function of the datagram's bytes alone")
		rt.Assert(got.PeerAddr == "10.0.2."+itoa(i+1) && got.PeerPort == 5060, "the delivered message carries its own source address")
	}
	rt.Reach("end")
}

// VC10_Pool: Alloc / Free sequences never hand out a buffer that is still held.
func VC10_Pool() {
	K := rt.Param("K")
	p := NewByteArrayPool(rt.Choice("maxcap", 3), 8)
	var held [][]byte
	for step := 0; step < K; step++ {
		if len(held) == 0 || rt.Bool("alloc") {
			b := p.Alloc()
			rt.Assert(len(b) == 8, "buffers have the configured size")
			// mark it: a buffer handed out twice would show the other holder's mark
			for _, o := range held {
				o[0] = 1
			}
			b[0] = 2
			for _, o := range held {
				rt.Assert(o[0] == 1, "a buffer that is still held is never handed out again")
			}
			held = append(held, b)
		} else {
			i := rt.Choice("which", len(held))
			p.Free(held[i])
			held = append(held[:i], held[i+1:]...)
		}
		rt.Assert(p.Size() <= 3, "the pool never exceeds its capacity by more than the first buffer")
	}
	rt.Reach("end")
}

// VC10_Burst: a first datagram (malformed or well-formed) is processed completely, then a burst
// of well-formed datagrams arrives back to back while the parse loop lags behind the receive
// loop: every buffer must have exactly one owner at a time, so each delivered message is the
// datagram it came from.
func VC10_Burst() {
	L, K := rt.Param("L"), rt.Param("K")
	fakenet.Reset()
	rt.RaceMonitor(true)
	u, err := NewUDPServerTransport(wListenAddr, 5060, true, NewSelfLearnRoute())
	rt.Assert(err == nil, "transport created")
	if err != nil {
		return
	}
	h := &vHandler{}
	rt.Assert(u.Start(h) == nil, "transport started")
	rt.Quiesce()
	sock := fakenet.UDPConns[0]
	first := "OPTIONS sip:a@b SIP/2.0\r\nCall-ID: warmup\r\nContent-Length: 0\r\n\r\n"
	switch rt.Choice("first", 4) {
	case 1:
		first = "OPTIONS sip:a@b SIP/2.0\r\nCall-ID: warmup\r\nContent-Length: 5\r\n\r\nab" // over-declared
	case 2:
		first = "OPTIONS sip:a@b SIP/2.0\r\nCall-ID: war" // cut inside the header section
	case 3:
		first = "\r\n\r\n" // keep-alive
	}
	sock.Deliver("10.0.2.9:5060", []byte(first))
	rt.Quiesce()
	before := len(h.got)
	var ids []string
	for i := 0; i < K; i++ {
		id := "b" + itoa(i) + rt.Str("id", "alnum", 1, L)
		ids = append(ids, id)
		sock.Deliver("10.0.2."+itoa(i+1)+":5060", []byte("OPTIONS sip:a@b SIP/2.0\r\nCall-ID: "+id+"\r\nContent-Length: 2\r\n\r\n"+itoa(i)+"!"))
	}
	rt.Quiesce()
	rt.Assert(len(h.got) == before+K, "burst: every datagram is delivered exactly once")
	if len(h.got) == before+K {
		for i := 0; i < K; i++ {
			cid, _ := h.got[before+i].Message.GetCallID()
			rt.Assert(cid == ids[i] && string(h.got[before+i].Message.body) == itoa(i)+"!", "burst: each delivered message is its own datagram")
			rt.Assert(h.got[before+i].PeerAddr == "10.0.2."+itoa(i+1), "burst: each delivered message carries its own source address")
		}
	}
	rt.Reach("end")
}
