package main

// C20 — sending survives connection faults without loss or duplication.

import (
	"errors"

	"MODULEPATH/zzverif/fakenet"
	"MODULEPATH/zzverif/rt"
)

func c20Msg(i int) *Message {
	m, _ := NewRequest("OPTIONS", "sip:probe@example.com", "SIP/2.0")
	m.AddHeader("Call-ID", "msg-"+itoa(i))
	m.body = []byte("body-" + itoa(i))
	return m
}

// occurrences counts how often `want` was written, over all scripted connections.
func occurrences(want string) (int, *fakenet.TCPConn) {
	n := 0
	var where *fakenet.TCPConn
	for _, c := range fakenet.Conns {
		for _, w := range c.Written {
			if string(w) == want {
				n++
				where = c
			}
		}
	}
	return n, where
}

func totalDials() int {
	n := 0
	for _, k := range fakenet.Dials {
		n += k
	}
	return n
}

// c20Dialer scripts the reconnectable path: 1 fresh, 2 stale (handled by the caller) then fresh,
// 3 refusing, 4 accepting then resetting on every write.
func c20Dialer(kind int) {
	fakenet.DialHook = func(network, address string) (fakenet.Conn, error) {
		switch kind {
		case 3:
			return nil, errors.New("connection refused")
		case 4:
			c := fakenet.NewTCPConn("10.0.0.9:40000", address)
			c.FailWrites = 1000000
			c.FailAccept = rt.Int("accepted-before-failing", 0, 40)
			return c, nil
		}
		return fakenet.NewTCPConn("10.0.0.9:40000", address), nil
	}
}

// VC20_ClientTransport: cached inbound connection {absent, healthy, failing} x reconnectable
// path {absent, fresh, stale failing once, refusing, accepting then resetting}, 1..N messages.
func VC20_ClientTransport() {
	fakenet.Reset()
	N := rt.Param("N")
	inbound := rt.Choice("inbound", 3)
	recon := rt.Choice("reconnect", 5)
	var primary, secondary ClientTransport
	if inbound > 0 {
		in := fakenet.NewTCPConn("10.0.0.9:5060", "10.0.0.1:4000")
		if inbound == 2 {
			in.FailWrites = 1000000
			in.FailAccept = rt.Int("accepted-before-failing", 0, 40)
		}
		primary, _ = NewTCPClientTransportWithConn(in)
	}
	if recon > 0 {
		tc, _ := NewTCPClientTransport("10.0.0.1", 5060, "10.0.0.9", nil)
		if recon == 2 {
			stale := fakenet.NewTCPConn("10.0.0.9:40001", "10.0.0.1:5060")
			stale.FailWrites = 1
			stale.FailAccept = rt.Int("accepted-before-failing", 0, 40)
			tc.conn = stale
		}
		c20Dialer(recon)
		secondary = tc
	}
	fct := NewFailOverClientTransport(primary, secondary)
	healthyPath := inbound == 1 || recon == 1 || recon == 2
	n := rt.Choice("messages", N) + 1
	var working *fakenet.TCPConn
	for i := 0; i < n; i++ {
		m := c20Msg(i)
		b, _ := m.Bytes()
		dialsBefore := totalDials()
		callsBefore := map[*fakenet.TCPConn]int{}
		for _, c := range fakenet.Conns {
			callsBefore[c] = c.WriteCalls
		}
		err := fct.Send(m)
		k, where := occurrences(string(b))
		if working != nil {
			for _, c := range fakenet.Conns {
				if c != working {
					rt.Assert(c.WriteCalls == callsBefore[c], "later messages go straight to the working path: no further attempt on a connection that failed")
				}
			}
		}
		if healthyPath {
			rt.Assert(err == nil, "a working path exists: the send succeeds")
		} else {
			rt.Assert(err != nil, "no working path: the send reports an error")
		}
		if err == nil {
			rt.Assert(k == 1, "success: the whole message was written exactly once")
		} else {
			rt.Assert(k == 0, "failure: the message was not written anywhere")
		}
		rt.Assert(totalDials()-dialsBefore <= 2, "at most two connection attempts per send")
		if err == nil && k == 1 {
			if working != nil {
				rt.Assert(where == working && totalDials() == dialsBefore, "later messages go straight to the working connection")
			}
			working = where
		}
	}
	rt.ObserveInt("dials", totalDials())
	rt.Reach("end")
}

// VC20_TCPBackend: backend connection {none yet, stale failing once} x destination {accepting,
// refusing, accepting then resetting}, 1..N messages.
func VC20_TCPBackend() {
	fakenet.Reset()
	N := rt.Param("N")
	state := rt.Choice("conn", 2)
	dest := rt.Choice("dest", 3) // 0 accepting, 1 refusing, 2 resetting
	established := 0
	tb, _ := NewTCPBackend("10.0.0.9:0", "10.0.0.2:5060", func(conn fakenet.Conn) { established++ })
	if state == 1 {
		stale := fakenet.NewTCPConn("10.0.0.9:40001", "10.0.0.2:5060")
		stale.FailWrites = 1
		stale.FailAccept = rt.Int("accepted-before-failing", 0, 40)
		tb.conn = stale
	}
	c20Dialer([]int{1, 3, 4}[dest])
	n := rt.Choice("messages", N) + 1
	var working *fakenet.TCPConn
	for i := 0; i < n; i++ {
		m := c20Msg(i)
		b, _ := m.Bytes()
		dialsBefore := totalDials()
		err := tb.Send(m)
		k, where := occurrences(string(b))
		if dest == 0 {
			rt.Assert(err == nil, "accepting destination: the send succeeds")
		} else {
			rt.Assert(err != nil, "refusing / resetting destination: the send reports an error")
		}
		if err == nil {
			rt.Assert(k == 1, "success: the whole message was written exactly once")
		} else {
			rt.Assert(k == 0, "failure: the message was not written anywhere")
		}
		rt.Assert(totalDials()-dialsBefore <= 2, "at most two connection attempts per send")
		if err == nil && k == 1 {
			if working != nil {
				rt.Assert(where == working && totalDials() == dialsBefore, "later messages go straight to the working connection")
			}
			working = where
		}
	}
	rt.ObserveInt("dials", totalDials())
	rt.Reach("end")
}

// VC20_UDP: a UDP client transport whose socket write fails reports the error; a healthy one
// writes exactly one datagram per send.
func VC20_UDP() {
	fakenet.Reset()
	fail := rt.Bool("writefail")
	u, err := NewUDPClientTransport("10.0.0.1", 5060, "10.0.0.9")
	rt.Assert(err == nil, "transport created")
	if err != nil {
		return
	}
	m := c20Msg(0)
	b, _ := m.Bytes()
	if fail {
		u.connect()
		u.conn.WriteFail = true
	}
	err = NewFailOverClientTransport(u, nil).Send(m)
	n := 0
	for _, d := range fakenet.Sent {
		if string(d.Payload) == string(b) && d.Remote == "10.0.0.1:5060" {
			n++
		}
	}
	if fail {
		rt.Assert(err != nil && n == 0, "failed datagram write is reported")
	} else {
		rt.Assert(err == nil && n == 1 && len(fakenet.Sent) == 1, "one datagram per send")
	}
	rt.Reach("end")
}

// VC20_AnyFaults: every Write on every connection and every dial outcome is an independent
// fault decision (all fault schedules), message bodies are symbolic. Send returns nil iff the
// message was written exactly once; an error means it was written nowhere; never more than two
// dials per send.
func VC20_AnyFaults() {
	fakenet.Reset()
	N, L := rt.Param("N"), rt.Param("L")
	fault := func(c *fakenet.TCPConn, b []byte) bool { return rt.Bool("writefault") }
	fakenet.DialHook = func(network, address string) (fakenet.Conn, error) {
		if rt.Bool("dialfail") {
			return nil, errors.New("connection refused")
		}
		c := fakenet.NewTCPConn("10.0.0.9:40000", address)
		c.WriteFault = fault
		c.FailAccept = rt.Int("accepted-before-failing", 0, 40)
		return c, nil
	}
	var primary ClientTransport
	if rt.Bool("inbound") {
		in := fakenet.NewTCPConn("10.0.0.9:5060", "10.0.0.1:4000")
		in.WriteFault = fault
		in.FailAccept = rt.Int("accepted-before-failing", 0, 40)
		primary, _ = NewTCPClientTransportWithConn(in)
	}
	tc, _ := NewTCPClientTransport("10.0.0.1", 5060, "10.0.0.9", nil)
	backend := rt.Bool("backend") // exercise TCPBackend instead of the fail-over client transport
	established := 0
	tb, _ := NewTCPBackend("10.0.0.9:0", "10.0.0.1:5060", func(conn fakenet.Conn) { established++ })
	fct := NewFailOverClientTransport(primary, tc)
	n := rt.Choice("messages", N) + 1
	for i := 0; i < n; i++ {
		m := c20Msg(i)
		m.body = []byte(rt.Str("body", "any", 0, L))
		b, _ := m.Bytes()
		dialsBefore := totalDials()
		var err error
		if backend {
			err = tb.Send(m)
		} else {
			err = fct.Send(m)
		}
		k, _ := occurrences(string(b))
		if err == nil {
			rt.Assert(k == 1, "success: the whole message was written exactly once")
		} else {
			rt.Assert(k == 0, "failure: the message was not written anywhere")
		}
		rt.Assert(totalDials()-dialsBefore <= 2, "at most two connection attempts per send")
	}
	rt.Reach("end")
}
