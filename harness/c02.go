package main

// C02 — responses follow the Via chain: pop one entry, go to the next.

import (
	"MODULEPATH/zzverif/rt"
)

type pVia struct {
	text      string
	transport string
	host      string // as written
	ip        string // what the host resolves to ("" = unknown name)
	port      string // "" = absent
	received  string
	rport     string // numeric value, "" otherwise
}

// genRespVia: one Via entry of a response: transport skeleton, IPv4 literal with a symbolic
// last octet or a name of the host table, optional port, parameters in any of the listed kinds.
func genRespVia(L int, tag string, deep bool, slim bool) pVia {
	var v pVia
	if deep {
		// entries below the next hop only have to survive untouched: a smaller skeleton
		v.transport = "TCP"
		v.host = "10.0.2." + rt.Dec("octet", 2)
		v.ip = v.host
		v.text = "SIP/2.0/" + v.transport + " " + v.host
		if !slim && rt.Bool("hasport") {
			v.port = genPort()
			v.text += ":" + v.port
		}
		v.text += ";branch=z9hG4bK" + tag + rt.Str("br", "alnum", 1, L)
		if !slim && rt.Bool("deep-params") {
			v.text += ";received=10.0.4." + rt.Dec("roctet", 2) + ";rport=" + genPort() + ";" + rt.Str("xk", "[a-qs-z]", 1, L) + "=" + rt.Str("xv", clsToken, 1, L)
		}
		return v
	}
	if slim {
		// X=2: the layout is what varies (three entries, blanks around commas); transports and host kinds are covered by the other configurations
		v.transport = []string{"UDP", "TCP"}[rt.Choice("transport", 2)]
	} else {
		v.transport = []string{"UDP", "TCP", "udp", "TLS", "SCTP"}[rt.Choice("transport", 5)]
	}
	hkn := 3
	if slim {
		hkn = 1
	}
	switch hk := rt.Choice("hostkind", hkn); {
	case hk == 1:
		v.host, v.ip = "ua.example.com", "10.0.2.77"
	case hk == 2: // the next hop is one of the proxy's own backends (a backend originated the request)
		v.host, v.ip = "10.0.1.1", "10.0.1.1"
	default:
		v.host = "10.0.2." + rt.Dec("octet", 2)
		v.ip = v.host
	}
	v.text = "SIP/2.0/" + v.transport + " " + v.host
	if rt.Bool("hasport") {
		v.port = genPort()
		v.text += ":" + v.port
	}
	v.text += ";branch=z9hG4bK" + tag + rt.Str("br", "alnum", 1, L)
	switch rt.Choice("vparams", 6) {
	case 1:
		v.received = "10.0.4." + rt.Dec("roctet", 2)
		v.text += ";received=" + v.received
	case 2:
		v.received = "10.0.4." + rt.Dec("roctet", 2)
		v.rport = genPort()
		v.text += ";received=" + v.received + ";rport=" + v.rport
	case 3:
		v.received = "10.0.4." + rt.Dec("roctet", 2)
		v.text += ";rport;received=" + v.received
	case 4:
		v.text += ";rport=" + genPort() // rport without received is not used
	case 5:
		v.text += ";" + rt.Str("xk", "[a-qs-z]", 1, L) + "=" + rt.Str("xv", clsToken, 1, L)
	}
	return v
}

func (v pVia) dest() (string, bool) {
	tr := ""
	switch v.transport {
	case "UDP", "udp":
		tr = "udp"
	case "TCP":
		tr = "tcp"
	default:
		return "", false
	}
	host, port := v.ip, v.port
	if port == "" {
		port = "5060"
	}
	if v.received != "" {
		host = v.received
		if v.rport != "" {
			port = v.rport
		}
	}
	return tr + ":" + host + ":" + port, true
}

// VC02_Response: response with 1..N Via entries in any mix of comma-separated values and
// repeated header lines.
func VC02_Response() {
	L, N, X := rt.Param("L"), rt.Param("N"), rt.Param("X")
	w := newWorld(worldOpts{nBackends: 1, hosts: map[string]string{"ua.example.com": "10.0.2.77"}})
	n := rt.Choice("nvia", N) + 1
	if X == 2 {
		n = N // always N entries: what follows the next hop's entry on its line matters
	}
	var vias []pVia
	head := ""
	head2 := "" // the same lines with the next hop's transport flipped (UDP <-> TCP), for the second response of R=1
	for i := 0; i < n; i++ {
		var v pVia
		if i == 0 {
			v = pVia{text: "SIP/2.0/UDP 10.0.0.9:5060;branch=z9hG4bKown"}
		} else {
			v = genRespVia(L, itoa(i), i >= 2 && X != 1, X == 2)
		}
		vias = append(vias, v)
		text2 := v.text
		if i == 1 && (v.transport == "UDP" || v.transport == "TCP") {
			text2 = "SIP/2.0/" + map[string]string{"UDP": "TCP", "TCP": "UDP"}[v.transport] + v.text[len("SIP/2.0/UDP"):]
		}
		if i > 0 && rt.Bool("comma") {
			// a comma-separated list may be written with blanks around the comma
			sep := []string{",", ", ", " ,\t "}[rt.Choice("comma-blanks", 3)]
			head += sep + v.text
			head2 += sep + text2
		} else {
			if i > 0 {
				head += "\r\n"
				head2 += "\r\n"
			}
			name := "Via"
			if X != 2 {
				name = []string{"Via", "v", "VIA"}[rt.Choice("vianame", 3)]
			}
			head += name + ": " + v.text
			head2 += name + ": " + text2
		}
	}
	head += "\r\n"
	head2 += "\r\n"
	status := rt.Int("status", 100, 699)
	method, toTag := "OPTIONS", ";tag=b"
	if X == 1 {
		method = []string{"OPTIONS", "SUBSCRIBE", "INVITE", "BYE"}[rt.Choice("cseq-method", 4)]
		if rt.Bool("no-to-tag") {
			toTag = "" // e.g. a 100 Trying
		}
	}
	text := "SIP/2.0 " + itoa(status) + " OK\r\n" + head +
		"From: <sip:alice@example.com>;tag=a\r\nTo: <sip:bob@example.net>" + toTag + "\r\nCall-ID: c1\r\nCSeq: 1 " + method + "\r\nContent-Length: 0\r\n\r\n"
	ok := w.deliver(text, "10.0.1.1", 5060, true)
	rt.Assert(ok, "response decodes")
	if !ok {
		return
	}
	sent := w.sentAll()
	if n == 1 {
		rt.Assert(len(sent) == 0, "no remaining Via entry: the response is sent nowhere")
		rt.Reach("end")
		return
	}
	want, supported := vias[1].dest()
	if !supported {
		rt.Assert(len(sent) == 0, "unsupported transport: the response is dropped")
		rt.Reach("end")
		return
	}
	rt.Assert(len(sent) == 1, "relayed exactly once")
	if len(sent) != 1 {
		return
	}
	rt.Assert(sent[0].dest == want, "sent over the next entry's transport to received/rport or sent-by host:port")
	got := refRead(sent[0].bytes).listOf("via")
	rt.Assert(len(got) == n-1, "exactly the topmost Via entry is discarded")
	if len(got) == n-1 {
		for i := 1; i < n; i++ {
			rt.Assert(got[i-1] == vias[i].text, "remaining Via entries intact and in order")
		}
	}
	rt.Observe("dest", sent[0].dest)
	rt.Observe("out", sent[0].bytes)
	if rt.Param("R") == 1 {
		// a further response of the same transaction carries byte-identical Via lines (the 200 after the 180, a
		// retransmission): it is relayed exactly like the first one, whatever decoding the first one left behind
		// ... or it belongs to another transaction towards the same host and port over the other transport (UDP <-> TCP):
		// each response goes over the transport its own Via entry names, whatever was used for that address before
		flip := rt.Bool("second-response-other-transport")
		h2, want2, vias2 := head, want, vias
		if flip {
			h2 = head2
			o := vias[1]
			o.transport = map[string]string{"UDP": "TCP", "TCP": "UDP"}[o.transport]
			o.text = "SIP/2.0/" + o.transport + vias[1].text[len("SIP/2.0/UDP"):]
			want2, _ = o.dest()
			vias2 = append([]pVia{vias[0], o}, vias[2:]...)
		}
		text2 := "SIP/2.0 200 OK\r\n" + h2 +
			"From: <sip:alice@example.com>;tag=a\r\nTo: <sip:bob@example.net>" + toTag + "\r\nCall-ID: c1\r\nCSeq: 1 " + method + "\r\nContent-Length: 0\r\n\r\n"
		rt.Assert(w.deliver(text2, "10.0.1.1", 5060, true), "second response decodes")
		sent2 := w.sentAll()
		rt.Assert(len(sent2) == 2, "second response: relayed exactly once as well")
		if len(sent2) == 2 {
			k := 1
			if sent2[0].bytes != sent[0].bytes || sent2[0].dest != sent[0].dest {
				k = 0 // sentAll lists by channel, not by time
			}
			rt.Assert(sent2[k].dest == want2, "second response: sent over its own next entry's transport to that entry's address")
			got2 := refRead(sent2[k].bytes).listOf("via")
			rt.Assert(len(got2) == n-1, "second response: exactly the topmost Via entry is discarded")
			if len(got2) == n-1 {
				for i := 1; i < n; i++ {
					rt.Assert(got2[i-1] == vias2[i].text, "second response: remaining Via entries intact and in order")
				}
			}
		}
	}
	rt.Reach("end")
}

// VC02_RoundTrip: a request relayed to a backend; the backend's response (echoing the Via
// stack it received) returns to the hop the request came from, carrying exactly the Via stack
// that hop sent. Two transactions interleaved in both orders.
func VC02_RoundTrip() {
	L := rt.Param("L")
	w := newWorld(worldOpts{nBackends: 2})
	type txn struct {
		via  string
		src  string
		port int
	}
	var ts []txn
	reqs := []string{}
	for i := 0; i < 2; i++ {
		octet := rt.Dec("octet", 2)
		src := "10.0.2." + octet
		port := 5060 + i
		via := "SIP/2.0/UDP " + src + ":" + itoa(port) + ";branch=z9hG4bK" + itoa(i) + rt.Str("br", "alnum", 1, L)
		if rt.Bool("second-via") {
			via += ",SIP/2.0/UDP 10.9.9.9;branch=z9hG4bKdeep" + itoa(i)
		}
		ts = append(ts, txn{via, src, port})
		reqs = append(reqs, "OPTIONS sip:svc@"+wService+" SIP/2.0\r\nVia: "+via+"\r\nFrom: <sip:a@example.com>;tag=f"+itoa(i)+
			"\r\nTo: <sip:svc@"+wService+">\r\nCall-ID: call"+itoa(i)+"\r\nCSeq: 1 OPTIONS\r\nContent-Length: 0\r\n\r\n")
	}
	for i := 0; i < 2; i++ {
		rt.Assert(w.deliver(reqs[i], ts[i].src, ts[i].port, false), "request decodes")
	}
	// what each backend received, by Call-ID
	relayed := []string{"", ""}
	from := []string{"", ""}
	for _, s := range w.sentAll() {
		m := refRead(s.bytes)
		for i := range m.names {
			if m.names[i] == "Call-ID" {
				for k := 0; k < 2; k++ {
					if m.values[i] == "call"+itoa(k) {
						relayed[k] = s.bytes
						from[k] = s.dest
					}
				}
			}
		}
	}
	rt.Assert(relayed[0] != "" && relayed[1] != "", "both requests reached a backend")
	if relayed[0] == "" || relayed[1] == "" {
		return
	}
	order := []int{0, 1}
	if rt.Bool("responses-reversed") {
		order = []int{1, 0}
	}
	before := len(w.sentAll())
	for _, k := range order {
		m := refRead(relayed[k])
		resp := "SIP/2.0 200 OK\r\n"
		for i := range m.names {
			if hdrKind(m.names[i]) == "via" {
				resp += m.names[i] + ": " + m.values[i] + "\r\n"
			}
		}
		resp += "From: <sip:a@example.com>;tag=f" + itoa(k) + "\r\nTo: <sip:svc@" + wService + ">;tag=t\r\nCall-ID: call" + itoa(k) + "\r\nCSeq: 1 OPTIONS\r\nContent-Length: 0\r\n\r\n"
		backendAddr := from[k][len("backend:"):]
		rt.Assert(w.deliver(resp, backendAddr[:len(backendAddr)-5], 5060, false), "response decodes")
		all := w.sentAll()
		rt.Assert(len(all) == before+1, "each response is relayed exactly once")
		if len(all) != before+1 {
			return
		}
		// the new item is the UDP datagram (backend doubles come first in sentAll)
		var out sentItem
		n := 0
		for _, s := range all {
			if len(s.dest) > 4 && s.dest[:4] == "udp:" {
				if n == before-2 {
					out = s
				}
				n++
			}
		}
		rt.Assert(out.dest == "udp:"+ts[k].src+":"+itoa(ts[k].port), "the response returns to the hop the request came from")
		got := refRead(out.bytes).listOf("via")
		want := ts[k].via
		joined := ""
		for i, g := range got {
			if i > 0 {
				joined += ","
			}
			joined += g
		}
		rt.Assert(joined == want, "the response carries exactly the Via stack that hop sent")
		before++
	}
	rt.Reach("end")
}
