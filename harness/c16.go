package main

// C16 — dialog identity is direction-independent and discriminating.

import (
	"MODULEPATH/zzverif/rt"
)

type gEnd struct {
	uri     string // URI without parameters (what identifies the endpoint)
	sip     bool
	user    string
	host    string
	port    string
	tag     string
	bareTag bool // an empty tag is written ";tag" instead of ";tag="
}

// genEndpoint: sip with/without user and port, tel, urn.
func genEndpoint(L int) gEnd { return genEndpointK(L, 5) }

// genEndpointK restricts the endpoint kinds to the first k.
func genEndpointK(L, k int) gEnd {
	var e gEnd
	switch rt.Choice("endkind", k) {
	case 0:
		e.sip, e.host = true, rt.Str("ehost", clsHost, 1, L)
		e.uri = "sip:" + e.host
	case 1:
		e.sip, e.user, e.host = true, rt.Str("euser", clsUser, 1, L), rt.Str("ehost", clsHost, 1, L)
		e.uri = "sip:" + e.user + "@" + e.host
	case 2:
		e.sip, e.user, e.host, e.port = true, rt.Str("euser", clsUser, 1, L), rt.Str("ehost", clsHost, 1, L), genPort()
		e.uri = "sip:" + e.user + "@" + e.host + ":" + e.port
	case 3:
		e.uri = "tel:" + rt.Str("enum", "[0-9+]", 1, L)
	case 4:
		e.uri = "urn:" + rt.Str("enid", "alnum", 1, L) + ":" + rt.Str("enss", "alnum+[-.:]", 1, L)
	}
	e.tag = rt.Str("etag", clsToken, 1, L)
	return e
}

// headerValue writes a From/To value for an endpoint with one of the decorations that must not
// matter: display name, SIP-URI parameters and headers, extra header parameters, bare form.
func headerValue(e gEnd, deco int, withTag bool, L int) string {
	tag := ""
	if withTag {
		tag = ";tag=" + e.tag
		if e.tag == "" && e.bareTag {
			tag = ";tag" // an empty-looking tag, written without '='
		}
	}
	switch deco {
	case 1:
		u := e.uri
		if e.sip {
			// parameters with a meaning elsewhere in the proxy (transport selects default ports) and an arbitrary one
			// parameters and headers, parameters only, or headers only
			shape := rt.Choice("uri-decoration", 3)
			if shape != 2 {
				u += []string{";transport=tcp", ";transport=tls", ";transport=udp;lr", ";user=phone;maddr=10.0.0.1;ttl=5"}[rt.Choice("known-uri-param", 4)]
				u += ";" + rt.Str("dpk", clsParam, 1, L)
			}
			if shape != 1 {
				u += "?" + rt.Str("dhk", clsHdr, 1, L) + "=" + rt.Str("dhv", clsHdr, 1, L)
			}
		}
		return "\"" + rt.Str("ddn", clsQuoted, 0, L) + "\" <" + u + ">;" + rt.Str("dxk", "[a-su-z]", 1, L) + "=" + rt.Str("dxv", clsToken, 1, L) + tag
	case 2:
		return e.uri + tag // bare addr-spec
	}
	return "<" + e.uri + ">" + tag
}

func dialogMsg(request bool, from, to gEnd, callID string, decoF, decoT, sp int, fromTag, toTag bool, L int) string {
	start := "BYE sip:x@y SIP/2.0\r\n"
	if !request {
		start = "SIP/2.0 200 OK\r\n"
	}
	return start +
		spell("From", sp) + ": " + headerValue(from, decoF, fromTag, L) + "\r\n" +
		spell("To", sp) + ": " + headerValue(to, decoT, toTag, L) + "\r\n" +
		spell("Call-ID", sp) + ": " + callID + "\r\n" +
		"CSeq: 1 BYE\r\n" +
		spell("Content-Length", sp) + ": 0\r\n\r\n"
}

// VC16_Symmetry: same Call-ID and same two (tag, URI) pairs, From/To swapped, any decorations,
// request or response, any header-name spelling => same dialog.
func VC16_Symmetry() {
	L := rt.Param("L")
	callID := rt.Str("callid", clsCallID, 1, L)
	a, b := genEndpoint(L), genEndpoint(L)
	// ET = 1: empty-looking tags (";tag=" / ";tag") on either side, plain second message
	emptyTag := rt.Param("ET") > 0
	if emptyTag {
		switch rt.Choice("empty-tag", 4) {
		case 0:
			a.tag = ""
		case 1:
			a.tag, a.bareTag = "", true
		case 2:
			b.tag = ""
		case 3:
			a.tag, b.tag, b.bareTag = "", "", true
		}
	}
	m1 := dialogMsg(true, a, b, callID, 0, 0, 0, true, true, L)
	swapped := rt.Bool("swapped")
	f, t := a, b
	if swapped {
		f, t = b, a
	}
	decoF, decoT, sp := 0, 0, 0
	if !emptyTag {
		decoF, decoT, sp = rt.Choice("decoF", 3), rt.Choice("decoT", 3), rt.Choice("spelling", 5)
	}
	m2 := dialogMsg(rt.Bool("request2"), f, t, callID, decoF, decoT, sp, true, true, L)
	p1, err1 := parseText(m1)
	p2, err2 := parseText(m2)
	rt.Assert(err1 == nil && err2 == nil, "both messages decode")
	if err1 != nil || err2 != nil {
		return
	}
	d1, e1 := p1.GetDialog()
	d2, e2 := p2.GetDialog()
	if emptyTag {
		// whether an empty tag counts as a tag is the implementation's choice — but not per direction
		rt.Assert((e1 == nil) == (e2 == nil), "empty-looking tag: belonging to a dialog does not depend on which side is From")
		if e1 != nil || e2 != nil {
			rt.Reach("end")
			return
		}
	}
	rt.Assert(e1 == nil && e2 == nil, "both messages belong to a dialog")
	if e1 != nil || e2 != nil {
		return
	}
	rt.Assert(d1 == d2, "same Call-ID and endpoint pairs => same dialog, whichever side is From")
	rt.Observe("d1", d1)
	rt.Observe("d2", d2)
	rt.Reach("end")
}

// VC16_Discrimination: changing exactly one of Call-ID / a tag / user / host / port of one URI
// yields a different dialog; the second message may have its sides swapped.
func VC16_Discrimination() {
	L := rt.Param("L")
	callID := rt.Str("callid", clsCallID, 1, L)
	a, b := genEndpoint(L), genEndpointK(L, rt.Param("BK"))
	a2, callID2 := a, callID
	switch rt.Choice("changed", 5) {
	case 0:
		callID2 = rt.Str("callid2", clsCallID, 1, L)
		rt.Assume(callID2 != callID)
	case 1:
		a2.tag = rt.Str("etag2", clsToken, 1, L)
		rt.Assume(a2.tag != a.tag)
	case 2:
		rt.Assume(a.sip && a.user != "")
		a2.user = rt.Str("euser2", clsUser, 1, L)
		rt.Assume(a2.user != a.user)
		a2.uri = "sip:" + a2.user + "@" + a2.host
		if a2.port != "" {
			a2.uri += ":" + a2.port
		}
	case 3:
		rt.Assume(a.sip)
		a2.host = rt.Str("ehost2", clsHost, 1, L)
		rt.Assume(a2.host != a.host)
		a2.uri = "sip:"
		if a2.user != "" {
			a2.uri += a2.user + "@"
		}
		a2.uri += a2.host
		if a2.port != "" {
			a2.uri += ":" + a2.port
		}
	case 4:
		rt.Assume(a.sip && a.port != "")
		a2.port = genPort()
		rt.Assume(a2.port != a.port)
		a2.uri = "sip:" + a2.user + "@" + a2.host + ":" + a2.port
	}
	m1 := dialogMsg(true, a, b, callID, 0, 0, 0, true, true, L)
	f, t := a2, b
	if rt.Bool("swapped") {
		f, t = b, a2
	}
	m2 := dialogMsg(true, f, t, callID2, 0, 0, 0, true, true, L)
	p1, err1 := parseText(m1)
	p2, err2 := parseText(m2)
	rt.Assert(err1 == nil && err2 == nil, "both messages decode")
	if err1 != nil || err2 != nil {
		return
	}
	d1, e1 := p1.GetDialog()
	d2, e2 := p2.GetDialog()
	rt.Assert(e1 == nil && e2 == nil, "both messages belong to a dialog")
	if e1 != nil || e2 != nil {
		return
	}
	rt.Assert(d1 != d2, "one changed identifier => different dialog")
	rt.Reach("end")
}

// VC16_NoTag: a message lacking either tag belongs to no dialog.
func VC16_NoTag() {
	L := rt.Param("L")
	callID := rt.Str("callid", clsCallID, 1, L)
	a, b := genEndpoint(L), genEndpoint(L)
	missing := rt.Choice("missing", 3) // 0: From tag, 1: To tag, 2: both
	m := dialogMsg(rt.Bool("request"), a, b, callID, rt.Choice("decoF", 3), rt.Choice("decoT", 3), rt.Choice("spelling", 5), missing == 1, missing == 0, L)
	p, err := parseText(m)
	rt.Assert(err == nil, "message decodes")
	if err != nil {
		return
	}
	_, e := p.GetDialog()
	rt.Assert(e != nil, "no dialog without both tags")
	rt.Reach("end")
}
