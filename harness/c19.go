package main

// C19 — the backend rotation follows name resolution, with bounded failure tolerance.

import (
	"MODULEPATH/zzverif/fakenet"
	"MODULEPATH/zzverif/faketime"
	"MODULEPATH/zzverif/rt"
)

var c19Addrs = [][]string{{"10.0.1.1", "10.0.1.2", "10.0.1.3"}, {"10.0.6.1", "10.0.6.2", "10.0.6.3"}}

// subsetOf returns the addresses selected by mask (bit i = address i), in an order chosen by
// `rotate` (name servers rotate their answers).
func c19Subset(pool []string, mask, rotate int) []string {
	var out []string
	for i := 0; i < len(pool); i++ {
		k := (i + rotate) % len(pool)
		if mask&(1<<uint(k)) != 0 {
			out = append(out, pool[k])
		}
	}
	return out
}

func sameSet(got map[string]bool, want []string) bool {
	if len(got) != len(want) {
		return false
	}
	for _, a := range want {
		if !got[a] {
			return false
		}
	}
	return true
}

// the second host name listens on another port, and a literal address on a third one closes the list
var c19Ports = []string{"5060", "5070"}

const c19Static = "10.0.9.9:5090"

// VC19_Resolution: every sequence of K resolution outcomes (success with any non-empty subset of
// three addresses in any rotation, or failure) per host name, delivered with quiescence between
// steps, for udp and tcp backends and one or two host names feeding the same rotation.
func VC19_Resolution() {
	K, H := rt.Param("K"), rt.Param("H")
	fakenet.Reset()
	faketime.SetClock(1000000000000)
	dynamicHostResolver = NewDynamicHostResolver(2) // a resolver of its own (natively state would leak between cases)
	proto := "udp"
	if rt.Bool("tcp") {
		proto = "tcp"
	}
	names := []string{"backend-a.example.com", "backend-b.example.com"}[:H]
	pools := [][]string{c19Addrs[0], c19Addrs[1]}
	if rt.Param("SYM") > 0 {
		// three pairwise distinct symbolic addresses instead of fixed ones
		a, b, c := "10.0.1."+rt.Dec("octet", 2), "10.0.1."+rt.Dec("octet", 2), "10.0.1."+rt.Dec("octet", 2)
		rt.Assume(a != b && a != c && b != c)
		pools[0] = []string{a, b, c}
	}
	var urls []string
	current := make([][]string, H) // what the rotation must contain per host
	fails := make([]int, H)
	for h, n := range names {
		mask := rt.Choice("initial", 8) // 0 = the name does not resolve at start
		current[h] = c19Subset(pools[h], mask, 0)
		fakenet.Hosts[n] = current[h]
		urls = append(urls, proto+"://"+n+":"+c19Ports[h])
	}
	if H > 1 {
		urls = append(urls, proto+"://"+c19Static)
	}
	established := 0
	rr, err := CreateRoundRobinBackend(wListenAddr+":5080", urls, func(conn fakenet.Conn) { established++ })
	rt.Assert(err == nil, "rotation created")
	if err != nil {
		return
	}
	p := &Proxy{myName: NewMyName(wService), localAddress: wListenAddr, preConfigRoute: NewPreConfigRoute(), resolver: NewPreConfigHostResolver(),
		clientTransMgr: NewClientTransportMgr(func(conn fakenet.Conn) {}), selfLearnRoute: NewSelfLearnRoute(),
		msgChannel: make(chan *RawMessage, 100), backendChangeChannel: make(chan *BackendChangeEvent, 100), connAcceptedChannel: make(chan fakenet.Conn),
		backends: make(map[string]*BackendWithParent), dialogBasedBackends: NewDialogBasedBackend(1200)}
	p.AddItem(&ProxyItem{transports: []ServerTransport{&vTrans{proto: "UDP", addr: wListenAddr, port: wListenPort}}, backend: rr, msgHandler: p})
	go p.receiveAndProcessMessage()
	rt.Quiesce()
	check := func(when string) {
		var want []string
		for h := range names {
			for _, ip := range current[h] {
				want = append(want, ip+":"+c19Ports[h])
			}
		}
		if H > 1 {
			want = append(want, c19Static)
		}
		got := map[string]bool{}
		for k := range rr.GetAllBackend() {
			got[k] = true
		}
		rt.Assert(sameSet(got, want), when+": the rotation contains exactly the resolved addresses")
		idx := map[string]bool{}
		for k := range p.backends {
			idx[k] = true
		}
		rt.Assert(sameSet(idx, want), when+": the proxy recognises exactly those source addresses as its backends")
		// dispatching len(want) times reaches each member once
		if len(want) > 0 && proto == "udp" {
			before := len(fakenet.Sent)
			for i := 0; i < len(want); i++ {
				rr.Send(NewMessage())
			}
			seen := map[string]bool{}
			for _, d := range fakenet.Sent[before:] {
				seen[d.Remote] = true
			}
			rt.Assert(len(fakenet.Sent)-before == len(want) && sameSet(seen, want), when+": dispatches reach exactly the members of the rotation")
		}
		if proto == "udp" {
			// sockets of removed backends are closed: open sockets = members
			open := 0
			for _, u := range fakenet.UDPConns {
				if !u.Closed() {
					open++
				}
			}
			rt.ObserveInt("open-sockets", open)
			rt.ObserveInt("sockets", len(fakenet.UDPConns))
			rt.Assert(open == len(want), when+": vanished backends are closed")
		}
	}
	check("after the initial resolution")
	for step := 0; step < K; step++ {
		for h, n := range names {
			if rt.Param("FO") > 0 || rt.Bool("failure") {
				fakenet.LookupFail[n] = true
				fails[h]++
				if fails[h] > 3 {
					current[h] = nil
					fails[h] = 0
				}
			} else {
				var set []string
				if rt.Param("RS") > 0 {
					// restricted successes (longer histories): the same set again, or one other set
					if rt.Bool("same-set") && len(current[h]) > 0 {
						set = append([]string{}, current[h]...)
					} else if len(current[h]) == 2 {
						set = c19Subset(pools[h], 6, 0)
						if current[h][0] == pools[h][1] {
							set = c19Subset(pools[h], 3, 0)
						}
					} else {
						set = c19Subset(pools[h], 3, 0)
					}
				} else {
					mask := rt.Choice("subset", 7) + 1
					set = c19Subset(pools[h], mask, rt.Choice("rotate", 2))
				}
				fakenet.LookupFail[n] = false
				fakenet.Hosts[n] = set
				current[h] = append([]string{}, set...)
				fails[h] = 0
			}
		}
		faketime.Advance(2 * faketime.Second) // one polling period
		rt.Quiesce()
		check("step " + itoa(step+1))
	}
	rt.Reach("end")
}
