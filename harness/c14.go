package main

// C14 — headers the proxy decodes are re-encoded without loss or distortion.
// One harness per header type; values = grammar skeleton x symbolic atoms.

import (
	"strings"

	"MODULEPATH/zzverif/rt"
)

// knownURI labels the two sub-domains the property itself names as known findings.
func knownURI(u gURI) {
	rt.Known("C14-ipv6-ref", u.ipv6)
	if u.sip && u.user != "" {
		rt.Known("C14-user-semi-q", strings.ContainsAny(u.user, ";?"))
	}
}

func checkSIPURIParts(s *SIPURI, u gURI, what string) {
	rt.Assert(s.Scheme == u.scheme, what+": scheme")
	rt.Assert(s.User == u.user, what+": user")
	rt.Assert(s.Password == u.pass, what+": password")
	rt.Assert(s.Host == u.host, what+": host")
	if u.port != "" {
		rt.Assert(itoa(s.GetPort()) == u.port, what+": port")
	} else {
		tr, err := s.GetParameter("transport")
		if err == nil && tr == "tls" {
			rt.Assert(s.GetPort() == 5061, what+": default port (tls)")
		} else {
			rt.Assert(s.GetPort() == 5060, what+": default port")
		}
	}
	rt.Assert(len(s.Parameters) == len(u.pkeys), what+": number of URI parameters")
	if len(s.Parameters) == len(u.pkeys) {
		for i := range u.pkeys {
			rt.Assert(s.Parameters[i].Key == u.pkeys[i], what+": URI parameter name")
			rt.Assert(s.Parameters[i].Value == u.pvals[i], what+": URI parameter value")
		}
	}
	rt.Assert(len(s.Headers) == len(u.hkeys), what+": number of URI headers")
	if len(s.Headers) == len(u.hkeys) {
		for i := range u.hkeys {
			rt.Assert(s.Headers[i].Key == u.hkeys[i], what+": URI header name")
			rt.Assert(s.Headers[i].Value == u.hvals[i], what+": URI header value")
		}
	}
}

// VC14_RequestURI: Request-URI / addr-spec round trip and components.
func VC14_RequestURI() {
	L, P, H := rt.Param("L"), rt.Param("P"), rt.Param("H")
	u := genAnyURI(L, P, H, true)
	knownURI(u)
	a, err := ParseAddrSpec(u.text)
	rt.Assert(err == nil, "addr-spec decodes")
	if err != nil {
		return
	}
	rt.Assert(a.String() == u.text, "addr-spec re-encodes byte-identically")
	rt.Assert(a.IsSIPURI() == u.sip, "addr-spec kind")
	if u.sip && a.IsSIPURI() {
		s, _ := a.GetSIPURI()
		checkSIPURIParts(s, u, "request-uri")
	}
	rt.Assert(a.String() == u.text, "addr-spec: reading the components does not change what is re-encoded")
	rt.Observe("out", a.String())
	rt.Reach("end")
}

type gVia struct {
	text, proto, host, port string
	keys, vals             []string
}

// genViaEntry: sent-protocol with any transport token, host, optional port, 0..V parameters
// drawn from {branch, received, rport valueless, rport numeric, maddr/extension}.
func genViaEntry(L, V int) gVia {
	var g gVia
	g.proto = rt.Str("tr", clsToken+"-[/]", 1, L)
	var v6 bool
	g.host, v6 = genHost(L, rt.Bool("ipv6"))
	rt.Known("C14-ipv6-ref", v6)
	g.text = "SIP/2.0/" + g.proto + " " + g.host
	if rt.Bool("viaport") {
		g.port = genPort()
		g.text += ":" + g.port
	}
	n := rt.Choice("nviaparams", V+1)
	for i := 0; i < n; i++ {
		var k, v string
		switch rt.Choice("vpkind", 5) {
		case 0:
			k, v = "branch", rt.Str("branch", clsToken, 1, L)
		case 1:
			k, v = "received", rt.Str("recv", clsHost, 1, L)
		case 2:
			k, v = "rport", ""
		case 3:
			k, v = "rport", rt.Dec("rport", 5)
		case 4:
			k = rt.Str("vk", clsToken, 1, L)
			if rt.Bool("vhasv") {
				v = rt.Str("vv", clsToken, 1, L)
			}
		}
		g.keys, g.vals = append(g.keys, k), append(g.vals, v)
		g.text += ";" + k
		if v != "" {
			g.text += "=" + v
		}
	}
	return g
}

// VC14_Via: Via with 1..E entries.
func VC14_Via() {
	L, E, V := rt.Param("L"), rt.Param("E"), rt.Param("V")
	n := rt.Choice("entries", E) + 1
	var es []gVia
	s := ""
	for i := 0; i < n; i++ {
		e := genViaEntry(L, V)
		es = append(es, e)
		if i > 0 {
			s += ","
		}
		s += e.text
	}
	v, err := ParseVia(s)
	rt.Assert(err == nil, "Via decodes")
	if err != nil {
		return
	}
	rt.Assert(v.String() == s, "Via re-encodes byte-identically")
	rt.Assert(v.Size() == n, "Via: number of entries")
	if v.Size() == n {
		for i, e := range es {
			p, _ := v.GetParam(i)
			rt.Assert(p.ProtocolName == "SIP" && p.ProtocolVersion == "2.0", "Via: protocol name/version")
			rt.Assert(p.Transport == e.proto, "Via: transport")
			rt.Assert(p.Host == e.host, "Via: host")
			if e.port != "" {
				rt.Assert(itoa(p.GetPort()) == e.port, "Via: port")
			} else if e.proto == "TLS" {
				rt.Assert(p.GetPort() == 5061, "Via: default port (TLS)")
			} else {
				rt.Assert(p.GetPort() == 5060, "Via: default port")
			}
			rt.Assert(len(p.Params) == len(e.keys), "Via: number of parameters")
			// accessors return the first parameter of that name
			seen := map[string]bool{}
			for j, k := range e.keys {
				if seen[k] {
					continue
				}
				seen[k] = true
				switch k {
				case "branch":
					b, err := p.GetBranch()
					rt.Assert(err == nil && b == e.vals[j], "Via: branch accessor")
				case "received":
					r, err := p.GetReceived()
					rt.Assert(err == nil && r == e.vals[j], "Via: received accessor")
				case "rport":
					rp, err := p.GetRPort()
					if e.vals[j] == "" {
						rt.Assert(err != nil, "Via: valueless rport is not a number")
					} else {
						rt.Assert(err == nil && itoa(rp) == e.vals[j], "Via: rport accessor")
					}
				}
			}
		}
	}
	rt.Assert(v.String() == s, "Via: reading the components does not change what is re-encoded")
	rt.Observe("out", v.String())
	// the proxy stamps the first entry (received / rport): every other entry must re-encode unchanged
	if n >= 2 && v.Size() == n && rt.Bool("stamp-first-entry") {
		p0, _ := v.GetParam(0)
		p0.SetReceived("192.0.2.7")
		parts := strings.Split(v.String(), ",")
		rt.Assert(len(parts) == n, "Via: stamping the first entry keeps the number of entries")
		if len(parts) == n {
			for i := 1; i < n; i++ {
				rt.Assert(parts[i] == es[i].text, "Via: stamping the first entry leaves the other entries byte-identical")
			}
		}
	}
	rt.Reach("end")
}

type gNameAddr struct {
	text    string
	display string
	uri     gURI
	params  gParams
}

func genRouteEntry(L, P, H, Q int) gNameAddr {
	var g gNameAddr
	if rt.Param("D") > 0 {
		g.display = genDisplay(L)
	}
	g.uri = genAnyURI(L, P, H, rt.Param("K") > 0)
	knownURI(g.uri)
	g.params = genHdrParams(L, Q)
	g.text = g.display + "<" + g.uri.text + ">" + g.params.text
	return g
}

// VC14_Route: Route and Record-Route lists with 1..E entries.
func VC14_Route() {
	L, E, P, H, Q := rt.Param("L"), rt.Param("E"), rt.Param("P"), rt.Param("H"), rt.Param("Q")
	n := rt.Choice("entries", E) + 1
	var es []gNameAddr
	s := ""
	for i := 0; i < n; i++ {
		e := genRouteEntry(L, P, H, Q)
		es = append(es, e)
		if i > 0 {
			s += ","
		}
		s += e.text
	}
	if rt.Bool("record-route") {
		rr, err := ParseRecordRoute(s)
		rt.Assert(err == nil, "Record-Route decodes")
		if err != nil {
			return
		}
		rt.Assert(rr.String() == s, "Record-Route re-encodes byte-identically")
		rt.Assert(rr.GetRecRouteCount() == n, "Record-Route: number of entries")
		if rr.GetRecRouteCount() == n {
			for i, e := range es {
				r, _ := rr.GetRecRoute(i)
				rt.Assert(r.GetNameAddr().DisplayName == e.display, "Record-Route: display name")
				rt.Assert(r.GetNameAddr().GetAddress().String() == e.uri.text, "Record-Route: URI")
				rt.Assert(r.GetParamCount() == len(e.params.keys), "Record-Route: number of header parameters")
			}
		}
		rt.Assert(rr.String() == s, "Record-Route: reading the components does not change what is re-encoded")
		rt.Observe("out", rr.String())
		rt.Reach("end")
		return
	}
	r, err := ParseRoute(s)
	rt.Assert(err == nil, "Route decodes")
	if err != nil {
		return
	}
	rt.Assert(r.String() == s, "Route re-encodes byte-identically")
	rt.Assert(r.GetRouteParamCount() == n, "Route: number of entries")
	if r.GetRouteParamCount() == n {
		for i, e := range es {
			rp, _ := r.GetRouteParam(i)
			rt.Assert(rp.GetAddress().DisplayName == e.display, "Route: display name")
			rt.Assert(rp.GetAddress().GetAddress().String() == e.uri.text, "Route: URI")
			if e.uri.sip && rp.GetAddress().GetAddress().IsSIPURI() {
				su, _ := rp.GetAddress().GetAddress().GetSIPURI()
				checkSIPURIParts(su, e.uri, "route")
			}
		}
	}
	rt.Assert(r.String() == s, "Route: reading the components does not change what is re-encoded")
	rt.Observe("out", r.String())
	rt.Reach("end")
}

// VC14_FromTo: From / To in name-addr and bare addr-spec form, with tag and other parameters.
func VC14_FromTo() {
	L, P, H, Q := rt.Param("L"), rt.Param("P"), rt.Param("H"), rt.Param("Q")
	bare := rt.Bool("bare")
	var u gURI
	s := ""
	if bare {
		// a bare addr-spec cannot carry ';' '?' or ',' itself (RFC 3261 section 20.10): no URI
		// parameters / headers, opaque URIs without parameters
		switch rt.Choice("urikind", 3) {
		case 1:
			u = genOpaqueURI(L, 0)
		case 2:
			u = genSIPURI(L, 0, 0, false, true)
		default:
			u = genSIPURI(L, 0, 0, false, false)
		}
		knownURI(u)
		s = u.text
	} else {
		d := genDisplay(L)
		u = genAnyURI(L, P, H, true)
		knownURI(u)
		s = d + "<" + u.text + ">"
	}
	// header parameters: optional tag in any position among 0..Q others
	hp := genHdrParams(L, Q)
	tag := ""
	text := hp.text
	hasTag := rt.Bool("hastag")
	if hasTag {
		tag = rt.Str("tag", clsToken, 1, L)
		if rt.Bool("tagfirst") {
			text = ";tag=" + tag + hp.text
		} else {
			text = hp.text + ";tag=" + tag
		}
		for _, k := range hp.keys {
			rt.Assume(k != "tag")
		}
	}
	s += text
	if rt.Bool("to") {
		t, err := ParseTo(s)
		rt.Assert(err == nil, "To decodes")
		if err != nil {
			return
		}
		rt.Assert(t.String() == s, "To re-encodes byte-identically")
		a, err := t.GetAddrSpec()
		rt.Assert(err == nil && a.String() == u.text, "To: URI")
		if hasTag {
			g, err := t.GetTag()
			rt.Assert(err == nil && g == tag, "To: tag accessor")
		}
		if u.sip {
			h, err := t.GetHost()
			rt.Assert(err == nil && h == u.host, "To: host accessor")
		}
		if u.sip {
			if su, err := a.GetSIPURI(); err == nil {
				su.GetPort()
				su.GetTransport()
			}
		}
		rt.Assert(t.String() == s, "To: reading the components does not change what is re-encoded")
		rt.Observe("out", t.String())
		rt.Reach("end")
		return
	}
	f, err := ParseFromSpec(s)
	rt.Assert(err == nil, "From decodes")
	if err != nil {
		return
	}
	rt.Assert(f.String() == s, "From re-encodes byte-identically")
	a, err := f.GetAddrSpec()
	rt.Assert(err == nil && a.String() == u.text, "From: URI")
	if hasTag {
		g, err := f.GetTag()
		rt.Assert(err == nil && g == tag, "From: tag accessor")
	}
	if u.sip {
		if su, err := a.GetSIPURI(); err == nil {
			su.GetPort()
			su.GetTransport()
		}
	}
	rt.Assert(f.String() == s, "From: reading the components does not change what is re-encoded")
	rt.Observe("out", f.String())
	rt.Reach("end")
}

// VC14_CSeq: sequence number (canonical decimal) and method token.
func VC14_CSeq() {
	L := rt.Param("L")
	n := rt.Dec("seq", 9)
	m := rt.Str("method", clsToken, 1, L)
	s := n + " " + m
	c, err := ParseCSeq(s)
	rt.Assert(err == nil, "CSeq decodes")
	if err != nil {
		return
	}
	rt.Assert(c.String() == s, "CSeq re-encodes byte-identically")
	rt.Assert(c.Method == m, "CSeq: method")
	rt.Assert(itoa(c.Seq) == n, "CSeq: number")
	rt.Observe("out", c.String())
	rt.Reach("end")
}
