package main

import "MODULEPATH/zzverif/rt"

// VC14_ViaSmoke: first smoke harness for the engine.
func VC14_ViaSmoke() {
	L := rt.Param("L")
	n := rt.Choice("entries", rt.Param("E")) + 1
	s := ""
	for i := 0; i < n; i++ {
		e := "SIP/2.0/" + rt.Str("tr", "token", 1, L) + " " + rt.Str("host", "host", 1, L)
		if rt.Bool("port") {
			e += ":" + rt.Dec("p", 5)
		}
		np := rt.Choice("params", rt.Param("P")+1)
		for j := 0; j < np; j++ {
			e += ";" + rt.Str("pk", "token", 1, L)
			if rt.Bool("pv") {
				e += "=" + rt.Str("pval", "token", 1, L)
			}
		}
		if i > 0 {
			s += ","
		}
		s += e
	}
	v, err := ParseVia(s)
	rt.Assert(err == nil, "decodes")
	if err != nil {
		return
	}
	rt.Assert(v.String() == s, "re-encodes byte-identically")
	rt.Observe("out", v.String())
	rt.Reach("end")
}
