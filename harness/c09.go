package main

// C09 — concurrent listeners and backend changes never corrupt or kill the proxy.
// Races are decided by the executor's monitor: vector clocks (go, channel send->receive,
// mutex unlock->lock, atomics, Quiesce) plus lock sets, over every access of repository code
// on every explored path — independent of the one schedule that was executed.

import (
	"MODULEPATH/zzverif/fakenet"
	"MODULEPATH/zzverif/faketime"
	"MODULEPATH/zzverif/rt"
)

func c09Listen(addr string, udp, tcp int, backends []string) struct {
	Address            string
	UDPPort            int      `yaml:"udp-port,omitempty"`
	TCPPort            int      `yaml:"tcp-port,omitempty"`
	BackendLocalAdress string   `yaml:"backend-local-address,omitempty"`
	BackendLocalPort   int      `yaml:"backend-local-port,omitempty"`
	Backends           []string `yaml:",omitempty"`
	Dests              []string `yaml:",omitempty"`
	NoReceived         bool     `yaml:"no-received,omitempty"`
	defRoute           bool     `yaml:"def-route,omitempty"`
	MustRecordRoute    bool     `yaml:"must-record-route,omitempty"`
} {
	var l struct {
		Address            string
		UDPPort            int      `yaml:"udp-port,omitempty"`
		TCPPort            int      `yaml:"tcp-port,omitempty"`
		BackendLocalAdress string   `yaml:"backend-local-address,omitempty"`
		BackendLocalPort   int      `yaml:"backend-local-port,omitempty"`
		Backends           []string `yaml:",omitempty"`
		Dests              []string `yaml:",omitempty"`
		NoReceived         bool     `yaml:"no-received,omitempty"`
		defRoute           bool     `yaml:"def-route,omitempty"`
		MustRecordRoute    bool     `yaml:"must-record-route,omitempty"`
	}
	l.Address, l.UDPPort, l.TCPPort, l.BackendLocalAdress, l.BackendLocalPort, l.Backends = addr, udp, tcp, addr, 5080, backends
	return l
}

func c09Request(i int, L int) string { return c09RequestR(i, L, "") }

// c09RequestR: with a Route header the request is relayed to that hop (learned-route lookup).
func c09RequestR(i int, L int, route string) string {
	return "OPTIONS sip:svc@" + wService + " SIP/2.0\r\nVia: SIP/2.0/UDP 10.0.2." + itoa(i+1) + ":5060;branch=z9hG4bK" + itoa(i) + rt.Str("br", "alnum", 0, L) +
		"\r\n" + route + "From: <sip:u" + itoa(i) + "@example.com>;tag=f\r\nTo: <sip:svc@" + wService + ">\r\nCall-ID: call" + itoa(i) + "\r\nCSeq: 1 OPTIONS\r\nContent-Length: 0\r\n\r\n"
}

// VC09_Listeners: two listeners of one service (real startProxy: shared learned-route table,
// resolver, route table; own message loops, transports, pools, rotations) receive traffic at the
// same time over UDP and TCP while name resolution changes the backend set.
func VC09_Listeners() {
	L := rt.Param("L")
	rt.Sched(rt.Param("BUDGET"), false)
	// two deterministic scheduling policies (next higher / next lower goroutine id): the race
	// verdict is computed from the executed schedule, so independent goroutines are run in both orders
	rt.SchedPolicy(rt.Choice("sched-policy", 2))
	fakenet.Reset()
	faketime.SetClock(1000000000000)
	dynamicHostResolver = NewDynamicHostResolver(2)
	fakenet.Hosts["backend.example.com"] = []string{"10.0.1.1", "10.0.1.2"}
	fakenet.DialHook = func(network, address string) (fakenet.Conn, error) {
		return fakenet.NewTCPConn("10.0.0.9:41000", address), nil
	}
	rt.RaceMonitor(true)
	cfg := ProxyConfig{Name: wService}
	second := "udp://backend.example.com:5060"
	if rt.Bool("tcp-backend") {
		second = "tcp://10.0.1.9:5060"
	}
	cfg.Listens = append(cfg.Listens, c09Listen("10.0.0.9", 5060, 5060, []string{"udp://backend.example.com:5060"}))
	cfg.Listens = append(cfg.Listens, c09Listen("10.0.0.10", 5060, 0, []string{second}))
	err := startProxy(cfg, NewPreConfigRoute(), NewPreConfigHostResolver())
	rt.Assert(err == nil, "both listeners start")
	if err != nil {
		return
	}
	rt.Quiesce()
	var socks []*fakenet.UDPConn
	for _, u := range fakenet.UDPConns {
		if a := u.LocalAddr().String(); a == "10.0.0.9:5060" || a == "10.0.0.10:5060" {
			socks = append(socks, u)
		}
	}
	rt.Assert(len(socks) == 2 && len(fakenet.Listeners) == 1, "listener sockets created")
	if len(socks) != 2 || len(fakenet.Listeners) != 1 {
		return
	}
	// simultaneously: a datagram on each UDP listener, a TCP client, and a resolution change
	before := len(fakenet.Sent)
	// a request relayed by Route to a peer consults the shared learned-route table; it arrives
	// before or after the other listener's traffic (both orders: happens-before is computed from
	// the executed schedule)
	routed := rt.Choice("routed-request", 3) // 0 none, 1 first, 2 last
	if routed == 1 {
		socks[0].Deliver("10.0.2.5:5060", []byte(c09RequestR(3, L, "Route: <sip:10.0.2.2:5060;lr>\r\n")))
	}
	socks[0].Deliver("10.0.2.1:5060", []byte(c09Request(0, L)))
	socks[1].Deliver("10.0.2.2:5060", []byte(c09Request(1, L)))
	if routed == 2 {
		socks[0].Deliver("10.0.2.5:5060", []byte(c09RequestR(3, L, "Route: <sip:10.0.2.2:5060;lr>\r\n")))
	}
	tc := fakenet.NewTCPConn("10.0.0.9:5060", "10.0.2.3:40000")
	fakenet.Listeners[0].Connect(tc)
	tc.Feed([]byte(c09Request(2, L)))
	change := rt.Choice("resolution-changes", 3) // 0 none, 1 an address is added, 2 an address is replaced
	switch change {
	case 1:
		fakenet.Hosts["backend.example.com"] = []string{"10.0.1.1", "10.0.1.2", "10.0.1.3"}
		faketime.Advance(2 * faketime.Second)
	case 2:
		fakenet.Hosts["backend.example.com"] = []string{"10.0.1.2", "10.0.1.3"}
		faketime.Advance(2 * faketime.Second)
	}
	rt.Quiesce()
	// every request reached exactly one backend of its listener
	seen := map[string]int{}
	for _, d := range fakenet.Sent[before:] {
		m := refRead(string(d.Payload))
		for i, n := range m.names {
			if n == "Call-ID" {
				seen[m.values[i]]++
			}
		}
	}
	for _, c := range fakenet.Conns {
		for _, w := range c.Written {
			m := refRead(string(w))
			for i, n := range m.names {
				if n == "Call-ID" {
					seen[m.values[i]]++
				}
			}
		}
	}
	if routed > 0 {
		rt.Assert(seen["call3"] == 1, "the routed request is relayed exactly once")
	}
	for i := 0; i < 3; i++ {
		if change == 2 {
			// a request dispatched to the very backend that is being removed (and closed) at that
			// moment may be lost with it; it is never duplicated
			rt.Assert(seen["call"+itoa(i)] <= 1, "no request is sent twice while a backend is being replaced")
		} else {
			rt.Assert(seen["call"+itoa(i)] == 1, "every request reaches exactly one backend of its listener")
		}
	}
	rt.Reach("end")
}

// VC09_Pool: two goroutines share one buffer pool (as the UDP receive and parse loops do).
func VC09_Pool() {
	rt.Sched(rt.Param("BUDGET"), false)
	rt.RaceMonitor(true)
	p := NewByteArrayPool(4, 8)
	done := make(chan bool, 2)
	for g := 0; g < 2; g++ {
		go func() {
			for i := 0; i < 3; i++ {
				b := p.Alloc()
				b[0] = 1
				p.Free(b)
			}
			done <- true
		}()
	}
	<-done
	<-done
	rt.Assert(p.Size() >= 1 && p.Size() <= 2, "pool consistent after concurrent use")
	rt.Reach("end")
}

// VC09_Rotation: a dispatch racing with membership changes made from another goroutine.
func VC09_Rotation() {
	rt.Sched(rt.Param("BUDGET"), false)
	rt.RaceMonitor(true)
	bs := c05Backends()
	rr := NewRoundRobinBackend()
	rr.AddBackend(bs[0])
	rr.AddBackend(bs[1])
	done := make(chan bool, 2)
	go func() {
		rr.RemoveBackend(bs[0].addr)
		rr.AddBackend(bs[2])
		rr.RemoveBackend(bs[1].addr)
		done <- true
	}()
	errs := 0
	go func() {
		for i := 0; i < 3; i++ {
			if rr.Send(NewMessage()) != nil {
				errs++
			}
		}
		done <- true
	}()
	<-done
	<-done
	rt.Assert(totalSent(bs)+errs == 3, "every dispatch either reaches one backend or reports an error; nothing is sent twice")
	// the set {0,1} -> {1} -> {1,2} -> {2} is never empty: no dispatch may be lost
	rt.Assert(errs == 0, "the backend set is never empty: every dispatch reaches a backend")
	rt.Assert(len(rr.backends) == 1 && len(rr.backendMap) == 1, "list and map in step after the changes")
	rt.Reach("end")
}

// VC09_Pipelined: two requests back to back on one TCP connection while the message loop lags (or
// not): the receiving goroutine hands each message over to the loop; nothing is lost, duplicated
// or shared between the two goroutines without synchronisation.
func VC09_Pipelined() {
	rt.RaceMonitor(true)
	lag := rt.Bool("message-loop-lags")
	w := newWorld(worldOpts{nBackends: 1, tcpListener: true, holdLoop: lag})
	conn := fakenet.NewTCPConn(wListenAddr+":5060", "10.0.2.2:40000")
	t := NewTCPServerTransportWithConn(conn, true, w.p.selfLearnRoute)
	t.Start(w.p)
	rt.Quiesce()
	stream := ""
	for i := 0; i < 2; i++ {
		stream += "OPTIONS sip:u@" + wService + " SIP/2.0\r\nVia: SIP/2.0/TCP 10.0.2.2:40000;branch=z9hG4bKq" + itoa(i) + "\r\nFrom: <sip:alice@example.com>;tag=a\r\nTo: <sip:u@" + wService +
			">\r\nCall-ID: q" + itoa(i) + "\r\nCSeq: 1 OPTIONS\r\nContent-Length: 0\r\n\r\n"
	}
	if rt.Bool("one-segment") {
		conn.Feed([]byte(stream))
	} else {
		conn.Feed([]byte(stream[:len(stream)/2]))
		conn.Feed([]byte(stream[len(stream)/2:]))
	}
	rt.Quiesce()
	if lag {
		w.startLoop()
	}
	n0, n1 := 0, 0
	for _, out := range w.bs[0].sent {
		switch refRead(out).first("call-id") {
		case "q0":
			n0++
		case "q1":
			n1++
		}
	}
	rt.Assert(n0 == 1 && n1 == 1 && len(w.bs[0].sent) == 2, "pipelined on one connection: every request reaches the backend exactly once")
	rt.Reach("end")
}

// VC09_TCPBackends: the message loop dispatches requests to real TCP backends (fakenet connections) while another
// thread — name resolution reporting a vanished address — removes one of them from the rotation, which closes it.
// Nothing crashes, every dispatch reaches one backend or reports an error, and the two threads do not touch a
// backend's connection without synchronisation.
func VC09_TCPBackends() {
	fakenet.Reset()
	rt.Sched(rt.Param("BUDGET"), false)
	rt.RaceMonitor(true)
	established := func(c fakenet.Conn) {}
	fakenet.DialHook = func(network, address string) (fakenet.Conn, error) {
		return fakenet.NewTCPConn(wListenAddr+":40000", address), nil
	}
	rr := NewRoundRobinBackend()
	var bs []*TCPBackend
	for i := 0; i < 2; i++ {
		b, err := NewTCPBackend(wListenAddr+":5080", "10.0.1."+itoa(i+1)+":5060", established)
		rt.Assert(err == nil, "TCP backend created")
		if err != nil {
			return
		}
		bs = append(bs, b)
		rr.AddBackend(b)
	}
	if rt.Bool("connected-before") {
		// both backends have been used before: their connections exist
		for i := 0; i < 2; i++ {
			rt.Assert(rr.Send(NewMessage()) == nil, "warm-up dispatch succeeds")
		}
	}
	warm := 0
	for _, c := range fakenet.Conns {
		warm += len(c.Written)
	}
	done := make(chan bool, 2)
	go func() {
		rr.RemoveBackend(bs[rt.Choice("removed", 2)].GetAddress())
		done <- true
	}()
	errs := 0
	go func() {
		for i := 0; i < 2; i++ {
			if rr.Send(NewMessage()) != nil {
				errs++
			}
		}
		done <- true
	}()
	<-done
	<-done
	written := 0
	for _, c := range fakenet.Conns {
		written += len(c.Written)
	}
	rt.Assert(written-warm+errs == 2, "every dispatch is written to one backend connection or reports an error")
	rt.Assert(len(rr.backends) == 1 && len(rr.backendMap) == 1, "list and map in step after the removal")
	rt.Reach("end")
}

// VC09_UDPBurst: the UDP receive loop and the parse loop share the buffer pool: after an undecodable datagram (or a valid
// one) a burst arrives while the parse loop lags. No datagram is lost or delivered twice, and no buffer is written by the
// receive loop while the parse loop still reads it (race monitor on buffer contents) — the scenario of VC10_Burst read for
// C09's "loses no messages" and "no unsynchronised sharing" under concurrent use of the buffer pool.
func VC09_UDPBurst() { VC10_Burst() }
