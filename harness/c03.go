package main

// C03 — each request goes to exactly one next hop chosen by fixed precedence.

import (
	"regexp"

	"MODULEPATH/zzverif/rt"
)

const c03Names = "svc.example.com,bob@named.example.com,^sip-[0-9]+@rx\\.example\\.com$,urn:service:sos,^tel:\\+1[0-9]*$"

// refServiceMatch: the property's rule (3): literal or regular-expression match of a configured
// name against user@host (SIP URIs) or the whole URI (others).
func refServiceMatch(sip bool, user, host, whole string) bool {
	names := []string{"svc.example.com", "bob@named.example.com", "^sip-[0-9]+@rx\\.example\\.com$", "urn:service:sos", "^tel:\\+1[0-9]*$"}
	for _, n := range names {
		if sip {
			if host == n || user+"@"+host == n {
				return true
			}
		} else if whole == n {
			return true
		}
		if _, err := regexp.Compile(n); err == nil {
			subject := whole
			if sip {
				subject = user + "@" + host
			}
			if ok, _ := regexp.MatchString(n, subject); ok {
				return true
			}
		}
	}
	return false
}

// VC03_Decision: the decision table of the property.
func VC03_Decision() {
	L := rt.Param("L")
	routeKind := rt.Choice("route", 6)   // 0 none, 1 own only, 2 own+next, 3 next only, 4 own+next+further, 5 next+further (joined on one line or not)
	toKind := rt.Choice("tohost", 5)     // 0 exact static route, 1 wildcard, 2 only default, 3 none, 4 wildcard whose pattern sorts after the word "default"
	ruriKind := rt.Choice("ruri", 10)    // 0 literal, 1 regex-only, 2 user@host name, 3 urn, 4 tel, 5 listener addr:port, 6 foreign, 7 another user at the named host, 8/9 a plain (metacharacter-free) name found inside a longer URI
	keep := rt.Bool("keep-next-hop")
	routes := [][3]string{{"udp", "static.example.org", "10.0.5.1:5071"}, {"tcp", "*.wild.example.org", "10.0.5.2"}, {"tcp", "sip*.late.example.org", "10.0.5.4:5074"}}
	// a default entry is the answer for kind 2 and must not matter when a better entry matches
	if toKind == 2 || ((toKind == 0 || toKind == 1 || toKind == 4) && rt.Bool("default-configured-too")) {
		routes = append(routes, [3]string{"udp", "default", "10.0.5.3:5073"})
	}
	w := newWorld(worldOpts{name: c03Names, nBackends: 2, keepNextHop: keep, routes: routes, hosts: map[string]string{"proxy.example.com": wListenAddr}})
	// Route
	head := "Via: SIP/2.0/UDP 10.0.2.2:5060;branch=z9hG4bKa\r\n"
	own := "<sip:" + wListenAddr + ":" + itoa(wListenPort) + ";lr>"
	if routeKind == 1 || routeKind == 2 || routeKind == 4 {
		// the proxy's own entry by address, by configured alias, or by alias without port
		own = []string{own, "<sip:proxy.example.com:" + itoa(wListenPort) + ";lr>", "<sip:proxy.example.com;lr>"}[rt.Choice("own-form", 3)]
	}
	nextDest := ""
	nextSupported := true
	next := ""
	if routeKind >= 2 {
		octet := rt.Dec("octet", 2)
		next = "<sip:" + rt.Str("nuser", clsUser, 0, L)
		if next != "<sip:" {
			next += "@"
		}
		next += "10.0.3." + octet
		port := "5060"
		if rt.Bool("nexthasport") {
			port = genPort()
			next += ":" + port
		}
		next += ";lr"
		tr := "udp"
		switch rt.Choice("nexttransport", 4) {
		case 1:
			next += ";transport=tcp"
			tr = "tcp"
		case 2:
			next += ";transport=udp"
		case 3:
			next += ";transport=tls"
			nextSupported = false
			if !rt.Bool("nexthasport") {
			}
		}
		next += ">"
		nextDest = tr + ":10.0.3." + octet + ":" + port
	}
	// a further entry behind the next hop, on another transport and port (it must not be chosen)
	further := "<sip:10.0.3.200:5099;lr;transport=tcp>"
	sep := ","
	if routeKind >= 4 && rt.Bool("further-on-own-line") {
		sep = "\r\nRoute: "
	}
	switch routeKind {
	case 1:
		head += "Route: " + own + "\r\n"
	case 2:
		head += "Route: " + own + "," + next + "\r\n"
	case 3:
		head += "Route: " + next + "\r\n"
	case 4:
		head += "Route: " + own + "," + next + sep + further + "\r\n"
	case 5:
		head += "Route: " + next + sep + further + "\r\n"
	}
	// To host
	toHost := []string{"static.example.org", rt.Str("wild", "[a-z0-9-]", 1, L) + ".wild.example.org", rt.Str("unrouted", "[a-z]", 1, L) + ".nowhere.example.net", rt.Str("unrouted", "[a-z]", 1, L) + ".nowhere.example.net",
		"sip" + rt.Str("late", "[a-z0-9-]", 0, L) + ".late.example.org"}[toKind]
	staticDest := []string{"udp:10.0.5.1:5071", "tcp:10.0.5.2:5060", "udp:10.0.5.3:5073", "", "tcp:10.0.5.4:5074"}[toKind]
	// Request-URI
	sip, user, host, ruri := true, "", "", ""
	switch ruriKind {
	case 0:
		user, host = rt.Str("ruser", clsUser, 1, L), "svc.example.com"
	case 1:
		user, host = "sip-"+rt.Str("digits", "digit", 1, L), "rx.example.com"
	case 2:
		user, host = "bob", "named.example.com"
	case 3:
		sip, ruri = false, "urn:service:sos"
	case 4:
		sip, ruri = false, "tel:+1"+rt.Str("teldigits", "digit", 0, L)
	case 5:
		user, host = rt.Str("ruser", clsUser, 1, L), wListenAddr
	case 6:
		user, host = rt.Str("ruser", clsUser, 1, L), rt.Str("fhost", "[a-z]", 1, L)+".foreign.example.net"
	case 7:
		user, host = rt.Str("ruser", clsUser, 1, L), "named.example.com"
		rt.Assume(user != "bob")
	case 8:
		// a configured name is also a regular expression: "urn:service:sos" is found in a longer urn
		sip, ruri = false, "urn:service:sos."+rt.Str("subservice", "[a-z]", 1, L)
	case 9:
		// ... and "svc.example.com" (its dots match any byte) inside a longer host name
		user, host = rt.Str("ruser", clsUser, 1, L), rt.Str("hostprefix", "[a-z]", 1, L)+".svc"+rt.Str("anybyte", "[a-z.-]", 1, 1)+"example.com"
	}
	if sip {
		ruri = "sip:" + user + "@" + host
		if ruriKind == 5 && rt.Bool("listener-port-explicit") {
			ruri += ":" + itoa(wListenPort)
		}
	}
	text := "INVITE " + ruri + " SIP/2.0\r\n" + head +
		"From: <sip:alice@example.com>;tag=a\r\nTo: <sip:bob@" + toHost + ">\r\nCall-ID: c1\r\nCSeq: 1 INVITE\r\nContent-Length: 0\r\n\r\n"
	ok := w.deliver(text, "10.0.2.2", 5060, true)
	rt.Assert(ok, "request decodes")
	if !ok {
		return
	}
	// reference decision
	expect := ""
	switch {
	case routeKind >= 2:
		if nextSupported {
			expect = nextDest
		}
	case staticDest != "":
		expect = staticDest
	case ruriKind == 5 || refServiceMatch(sip, user, host, ruri):
		expect = "backend"
	}
	sent := w.sentAll()
	if expect == "" {
		rt.Assert(len(sent) == 0, "no rule applies (or unsupported transport): the request is dropped")
		rt.Reach("end")
		return
	}
	rt.Assert(len(sent) == 1, "the request is sent to exactly one destination")
	if len(sent) != 1 {
		return
	}
	if expect == "backend" {
		rt.Assert(len(sent[0].dest) > 8 && sent[0].dest[:8] == "backend:", "service request goes to one backend of the service")
	} else {
		rt.Assert(sent[0].dest == expect, "destination chosen by precedence: Route, then static route, then service backend")
	}
	rt.Observe("dest", sent[0].dest)
	rt.Reach("end")
}
