package main

// Native replay: solver models are turned into case files and run against the natively
// compiled harness (same source, real compiler and libraries) through `go test -overlay`.

import (
	"bytes"
	"context"
	"encoding/base64"
	"encoding/json"
	"fmt"
	"os"
	"os/exec"
	"path/filepath"
	"sort"
	"strconv"
	"strings"
	"sync"
	"time"
)

type ReplayCase struct {
	Harness  string            `json:"harness"`
	Property string            `json:"property"`
	Params   map[string]int    `json:"params"`
	Strs     map[string]string `json:"strs"`
	Ints     map[string]int64  `json:"ints"`
	Choices  map[string]int    `json:"choices"`
	Pretty   map[string]string `json:"pretty"`
	Script   []int             `json:"script"`
	Expect   *Expect           `json:"expect,omitempty"`
	Label    string            `json:"violated,omitempty"`
	Over     bool              `json:"over_approximated_path,omitempty"`
	NonDet   bool              `json:"nondeterministic_natively,omitempty"`
	Schedule []string          `json:"forced_context_switches,omitempty"`
}

type Expect struct {
	Observes []obsOut `json:"observes"`
	Panic    string   `json:"panic,omitempty"`
	Failing  string   `json:"failing_assert,omitempty"`
}

type nativeResult struct {
	Harness  string `json:"harness"`
	Asserts  []struct {
		Label string `json:"label"`
		OK    bool   `json:"ok"`
	} `json:"asserts"`
	Observes []obsOut `json:"observes"`
	Reached  []string `json:"reached"`
	Panic    string   `json:"panic"`
	Skipped  bool     `json:"skipped"`
	Diverged string   `json:"diverged"`
	crash    string
}

func (c *ReplayCase) pretty() string {
	keys := make([]string, 0, len(c.Pretty))
	for k := range c.Pretty {
		keys = append(keys, k)
	}
	sort.Strings(keys)
	var sb strings.Builder
	for i, k := range keys {
		if i > 0 {
			sb.WriteString(" ")
		}
		sb.WriteString(k + "=" + c.Pretty[k])
	}
	return sb.String()
}

func b64(s string) string { return base64.StdEncoding.EncodeToString([]byte(s)) }

func (p *Path) caseFromModel(m *Model) *ReplayCase {
	c := &ReplayCase{Harness: p.h.spec.Func, Property: p.h.spec.Property, Params: p.params, Strs: map[string]string{}, Ints: map[string]int64{},
		Choices: map[string]int{}, Pretty: map[string]string{}, Script: append([]int{}, p.script...), Over: p.overApprox}
	for _, in := range p.inputs {
		switch in.kind {
		case 's':
			v := m.atomVal(in.atom)
			c.Strs[in.name] = b64(v)
			c.Pretty[in.name] = strconv.Quote(v)
		case 'i':
			v := m.ivar(in.ivar)
			c.Ints[in.name] = v
			c.Pretty[in.name] = strconv.FormatInt(v, 10)
		case 'c':
			c.Choices[in.name] = in.val
			c.Pretty[in.name] = strconv.Itoa(in.val)
		}
	}
	c.NonDet = p.mapPerm || p.sched.explore || p.sched.budget > 0 || len(p.sched.taken) > 0 || p.uuidCalls > 0 && false
	c.Schedule = append([]string(nil), p.sched.taken...)
	return c
}

// buildWitness produces a concrete input for a completed path together with what the executor
// predicts the native run will observe.
func (p *Path) buildWitness(panicked bool) *ReplayCase {
	r, mm, _ := p.exactModel(nil)
	if r != Sat {
		return nil
	}
	m := &Model{p: p, m: mm}
	c := p.caseFromModel(m)
	c.Expect = &Expect{}
	for _, o := range p.observes {
		var v string
		if o.isInt {
			v = strconv.FormatInt(m.lin(p.resLin(o.i)), 10)
		} else {
			v = m.nf(o.s)
		}
		c.Expect.Observes = append(c.Expect.Observes, obsOut{Label: o.label, V: b64(v)})
	}
	if panicked {
		c.Expect.Panic = "yes"
	}
	return c
}

// NativeRunner compiles the test binary once and runs cases in separate processes.
type NativeRunner struct {
	eng  *Engine
	bin  string
	err  error
	once sync.Once
	dir  string
	seq  int64
	mu   sync.Mutex
	raceOnce sync.Once
	raceBin  string
	raceErr  error
}

func (nr *NativeRunner) build() error {
	nr.once.Do(func() {
		nr.dir = filepath.Join(nr.eng.cfg.scratch, "native")
		os.MkdirAll(nr.dir, 0o755)
		nr.bin = filepath.Join(nr.dir, "replay.test")
		ctx, cancel := context.WithTimeout(context.Background(), 10*time.Minute)
		defer cancel()
		cmd := exec.CommandContext(ctx, "go", "test", "-c", "-vet=off", "-tags=verif", "-overlay", nr.eng.overlayJSON, "-o", nr.bin, ".")
		cmd.Dir = nr.eng.cfg.repoDir
		cmd.Env = append(os.Environ(), "GOFLAGS=-mod=mod", "GOPROXY=off", "GOSUMDB=off", "GOTOOLCHAIN=local")
		out, err := cmd.CombinedOutput()
		if err != nil {
			nr.err = fmt.Errorf("native build failed: %v\n%s", err, firstLines(string(out), 30))
		}
	})
	return nr.err
}

func (nr *NativeRunner) run(c *ReplayCase) (*nativeResult, error) { return nr.runEnv(c, nil) }

// runEnv runs one case natively with extra environment variables (GOMAXPROCS=1 makes Go's scheduler run the goroutines
// of the case one after the other — the "one loop lags behind the other" schedules of the executor).
func (nr *NativeRunner) runEnv(c *ReplayCase, env []string) (*nativeResult, error) {
	if err := nr.build(); err != nil {
		return nil, err
	}
	nr.mu.Lock()
	nr.seq++
	id := nr.seq
	nr.mu.Unlock()
	cf := filepath.Join(nr.dir, fmt.Sprintf("case%d.json", id))
	of := filepath.Join(nr.dir, fmt.Sprintf("out%d.json", id))
	b, _ := json.Marshal(c)
	if err := os.WriteFile(cf, b, 0o644); err != nil {
		return nil, err
	}
	if os.Getenv("VERIF_KEEP") == "" {
		defer os.Remove(cf)
		defer os.Remove(of)
	}
	limit, testLimit := 60*time.Second, "-test.timeout=50s"
	if strings.HasPrefix(c.Label, "nontermination:") {
		limit, testLimit = 20*time.Second, "-test.timeout=12s" // hang probe: the inputs are a few bytes, a run takes milliseconds
	}
	ctx, cancel := context.WithTimeout(context.Background(), limit)
	defer cancel()
	cmd := exec.CommandContext(ctx, nr.bin, "-test.run", "^TestVerifReplay$", "-test.count=1", testLimit)
	cmd.Dir = nr.dir
	cmd.Env = append(append(os.Environ(), "VERIF_CASE="+cf, "VERIF_OUT="+of), env...)
	var stderr bytes.Buffer
	cmd.Stdout = &stderr
	cmd.Stderr = &stderr
	runErr := cmd.Run()
	res := &nativeResult{}
	ob, err := os.ReadFile(of)
	if err != nil {
		// the process died before writing: a crash (panic in another goroutine, fatal error, hang)
		txt := stderr.String()
		res.crash = firstLines(extractCrash(txt), 6)
		if ctx.Err() != nil {
			res.crash = "timeout (hang): " + res.crash
		}
		if res.crash == "" {
			res.crash = fmt.Sprintf("no result file (%v)", runErr)
		}
		return res, nil
	}
	if err := json.Unmarshal(ob, res); err != nil {
		return nil, err
	}
	return res, nil
}

func extractCrash(s string) string {
	for _, key := range []string{"panic:", "fatal error:"} {
		if i := strings.Index(s, key); i >= 0 {
			return s[i:]
		}
	}
	return s
}

// buildRace compiles the replay binary with the Go race detector.
func (nr *NativeRunner) buildRace() error {
	nr.raceOnce.Do(func() {
		if err := nr.build(); err != nil {
			nr.raceErr = err
			return
		}
		nr.raceBin = filepath.Join(nr.dir, "replay_race.test")
		ctx, cancel := context.WithTimeout(context.Background(), 10*time.Minute)
		defer cancel()
		cmd := exec.CommandContext(ctx, "go", "test", "-race", "-c", "-vet=off", "-tags=verif", "-overlay", nr.eng.overlayJSON, "-o", nr.raceBin, ".")
		cmd.Dir = nr.eng.cfg.repoDir
		cmd.Env = append(os.Environ(), "GOFLAGS=-mod=mod", "GOPROXY=off", "GOSUMDB=off", "GOTOOLCHAIN=local")
		if out, err := cmd.CombinedOutput(); err != nil {
			nr.raceErr = fmt.Errorf("native -race build failed: %v\n%s", err, firstLines(string(out), 20))
		}
	})
	return nr.raceErr
}

// confirmRace runs the case under the Go race detector and looks for a report that names one of
// the two source locations of the statically found race.
func (nr *NativeRunner) confirmRace(v *Violation) {
	if err := nr.buildRace(); err != nil {
		v.Confirmed, v.NativeOut = "not-run", err.Error()
		return
	}
	var sites []string
	for _, f := range strings.Fields(v.Label) {
		if i := strings.Index(f, "@"); i >= 0 {
			s := f[i+1:]
			if j := strings.Index(s, "("); j >= 0 {
				s = s[:j]
			}
			sites = append(sites, s)
		}
	}
	for try := 0; try < 4; try++ {
		nr.mu.Lock()
		nr.seq++
		id := nr.seq
		nr.mu.Unlock()
		cf := filepath.Join(nr.dir, fmt.Sprintf("case%d.json", id))
		b, _ := json.Marshal(v.Case)
		os.WriteFile(cf, b, 0o644)
		ctx, cancel := context.WithTimeout(context.Background(), 120*time.Second)
		cmd := exec.CommandContext(ctx, nr.raceBin, "-test.run", "^TestVerifReplay$", "-test.count=1", "-test.timeout=100s")
		cmd.Dir = nr.dir
		cmd.Env = append(os.Environ(), "VERIF_CASE="+cf, "VERIF_OUT="+filepath.Join(nr.dir, fmt.Sprintf("out%d.json", id)), "GORACE=halt_on_error=0")
		out, _ := cmd.CombinedOutput()
		cancel()
		os.Remove(cf)
		txt := string(out)
		if strings.Contains(txt, "DATA RACE") {
			for _, s := range sites {
				if strings.Contains(txt, s) {
					v.Confirmed, v.NativeOut = "reproduced", "go test -race reports a DATA RACE at "+s
					return
				}
			}
		}
	}
	// The monitor's verdict does not depend on the schedule that was executed (strong
	// happens-before + lock sets + initialisation phase); the Go race detector also orders accesses
	// by mutex hand-over, so a native run only shows the race under the right interleaving.
	v.Confirmed, v.NativeOut = "static", "lock-set analysis: the two accesses share no lock and are not ordered by go/channel/atomic edges (the Go race detector did not hit the interleaving in 4 native runs)"
}

// confirm replays a violation natively.
func (nr *NativeRunner) confirm(v *Violation) {
	nr.confirm1(v)
	if v.Confirmed == "not-reproduced" && v.Over {
		first, firstOut := v.Case, v.NativeOut
		for _, alt := range v.Alts {
			v.Case = alt
			nr.confirm1(v)
			if v.Confirmed == "reproduced" {
				return
			}
		}
		v.Case, v.Confirmed, v.NativeOut = first, "not-reproduced", fmt.Sprintf("%s (%d further candidate inputs tried)", firstOut, len(v.Alts))
	}
}

func (nr *NativeRunner) confirm1(v *Violation) {
	nr.confirmWith(v, nil)
	if v.Confirmed == "not-reproduced" && !strings.HasPrefix(v.Label, "nontermination:") && !strings.HasPrefix(v.NativeOut, "native run diverged") {
		// the executor runs goroutines one after the other until they block; Go's scheduler does the same with one P
		nr.confirmWith(v, []string{"GOMAXPROCS=1"})
		if v.Confirmed == "reproduced" {
			v.NativeOut += " (native run with GOMAXPROCS=1: goroutines run one after the other, as in the executor's schedule)"
		}
	}
}

func (nr *NativeRunner) confirmWith(v *Violation, env []string) {
	if strings.HasPrefix(v.Label, "race: RACE") {
		nr.confirmRace(v)
		return
	}
	if strings.HasPrefix(v.Label, "nontermination:") {
		v.Case.Label = v.Label // selects the short time limit of the hang probe
	}
	res, err := nr.runEnv(v.Case, env)
	if err != nil {
		v.Confirmed, v.NativeOut = "not-run", err.Error()
		return
	}
	if strings.HasPrefix(v.Label, "nontermination:") {
		// only a native hang confirms it
		if strings.HasPrefix(res.crash, "timeout (hang)") || strings.Contains(res.crash, "test timed out") {
			v.Confirmed, v.NativeOut = "reproduced", "the native run of these inputs does not finish (killed after the hang probe's time limit)"
		} else {
			v.Confirmed, v.NativeOut = "not-reproduced", "the native run finishes: the loop needs a larger bound, not a verdict"
		}
		return
	}
	isPanic := strings.HasPrefix(v.Label, "panic:") || strings.HasPrefix(v.Label, "deadlock:")
	fail := ""
	for _, a := range res.Asserts {
		if !a.OK {
			if a.Label == v.Label {
				fail = a.Label
				break
			}
			if fail == "" {
				fail = a.Label
			}
		}
	}
	if strings.HasPrefix(v.Label, "allocation larger than the limit") {
		for _, a := range res.Asserts {
			if !a.OK && strings.HasPrefix(a.Label, "allocation larger than the limit") {
				fail = v.Label
			}
		}
	}
	switch {
	case res.Diverged != "" && fail == "" && res.Panic == "" && res.crash == "":
		v.Confirmed, v.NativeOut = "not-reproduced", "native run diverged: "+res.Diverged
	case isPanic && (res.Panic != "" || res.crash != ""):
		v.Confirmed, v.NativeOut = "reproduced", res.Panic+res.crash
	case strings.HasPrefix(v.Label, "deadlock:") && fail != "":
		// a goroutine of the proxy blocked for good does not crash a Go process as long as the
		// harness goroutine runs; natively it shows as the work that goroutine no longer does
		v.Confirmed, v.NativeOut = "reproduced", "the goroutine blocks natively as well; the harness observes: "+fail
	case isPanic:
		v.Confirmed, v.NativeOut = "not-reproduced", "no panic natively"
	case strings.HasPrefix(v.Label, "race:"):
		v.Confirmed, v.NativeOut = "static", "races are decided by happens-before/lock-set analysis, not by one native schedule"
	case fail == v.Label:
		v.Confirmed, v.NativeOut = "reproduced", "assertion fails natively: "+fail
	case fail != "" && v.Over:
		v.Confirmed, v.NativeOut = "reproduced", "over-approximated path; native run violates: "+fail
	case fail != "":
		v.Confirmed, v.NativeOut = "reproduced", "native run violates a different assertion of the same harness: "+fail
	case res.Panic != "" || res.crash != "":
		v.Confirmed, v.NativeOut = "reproduced", "native run panics: "+res.Panic+res.crash
	case len(v.Case.Schedule) > 0:
		// the path needs context switches at specific lock / channel points; the native runtime cannot
		// be made to follow them. The interleaving is one the executor built from the real code's
		// SSA under Go's lock and channel semantics: it is reported, with the switches listed.
		v.Confirmed, v.NativeOut = "schedule", fmt.Sprintf("needs %d forced context switch(es): %s; the native run under Go's own scheduler did not take them", len(v.Case.Schedule), strings.Join(v.Case.Schedule, "; "))
	default:
		v.Confirmed, v.NativeOut = "not-reproduced", "all assertions hold natively"
	}
}

// validate runs a witness natively and compares with the executor's predictions.
func (nr *NativeRunner) validate(c *ReplayCase) (bool, string) {
	res, err := nr.run(c)
	if err != nil {
		return false, err.Error()
	}
	if res.Diverged != "" {
		return false, "diverged: " + res.Diverged
	}
	if c.Expect.Panic != "" {
		if res.Panic == "" && res.crash == "" {
			return false, "executor predicted a panic, native run did not panic"
		}
		return true, ""
	}
	if res.crash != "" {
		return false, "native crash: " + res.crash
	}
	if res.Panic != "" {
		return false, "native panic not predicted: " + res.Panic
	}
	if res.Skipped {
		return false, "native run hit a false Assume (model does not satisfy the harness assumptions)"
	}
	for _, a := range res.Asserts {
		if !a.OK {
			return false, "assertion fails natively but held symbolically: " + a.Label
		}
	}
	if len(res.Observes) != len(c.Expect.Observes) {
		return false, fmt.Sprintf("number of observations differs: native %d, predicted %d", len(res.Observes), len(c.Expect.Observes))
	}
	for i, o := range res.Observes {
		e := c.Expect.Observes[i]
		if o.Label != e.Label || o.V != e.V {
			nv, _ := base64.StdEncoding.DecodeString(o.V)
			ev, _ := base64.StdEncoding.DecodeString(e.V)
			return false, fmt.Sprintf("observation %q differs: native %q, predicted %q (label %q)", o.Label, nv, ev, e.Label)
		}
	}
	return true, ""
}
