package main

// Front end: load /repo's current working tree with the harness files, the shim packages and
// import-rewritten copies of the files that use net / time, all through an overlay.

import (
	"encoding/json"
	"fmt"
	"go/types"
	"os"
	"path/filepath"
	"regexp"
	"sort"
	"strings"

	"golang.org/x/tools/go/packages"
	"golang.org/x/tools/go/ssa"
	"golang.org/x/tools/go/ssa/ssautil"
)

var harnessFuncRe = regexp.MustCompile(`(?m)^func (V[A-Z0-9][A-Za-z0-9_]*)\(\)`)

// rewriteImports replaces the import specs "net" and "time" by the shim packages, keeping
// every line number.
func rewriteImports(src []byte, mod string) ([]byte, bool) {
	lines := strings.Split(string(src), "\n")
	inBlock := false
	changed := false
	for i, ln := range lines {
		t := strings.TrimSpace(ln)
		if strings.HasPrefix(t, "import (") {
			inBlock = true
			continue
		}
		if inBlock && t == ")" {
			break
		}
		single := strings.HasPrefix(t, "import \"")
		if !inBlock && !single {
			if strings.HasPrefix(t, "func ") || strings.HasPrefix(t, "type ") || strings.HasPrefix(t, "var ") {
				break
			}
			continue
		}
		spec := t
		if single {
			spec = strings.TrimSpace(strings.TrimPrefix(t, "import"))
		}
		switch spec {
		case `"net"`:
			lines[i] = strings.Replace(ln, `"net"`, `net "`+mod+`/zzverif/fakenet"`, 1)
			changed = true
		case `"time"`:
			lines[i] = strings.Replace(ln, `"time"`, `time "`+mod+`/zzverif/faketime"`, 1)
			changed = true
		}
	}
	return []byte(strings.Join(lines, "\n")), changed
}

// buildOverlay writes all overlay files into the scratch directory and returns path->file.
func buildOverlay(cfg *Config, mod string) (map[string]string, []string, error) {
	ov := map[string]string{}
	var harnessFuncs []string
	put := func(virtual string, content []byte) error {
		real := filepath.Join(cfg.scratch, "ov", strings.ReplaceAll(strings.TrimPrefix(virtual, "/"), "/", "__"))
		if err := os.MkdirAll(filepath.Dir(real), 0o755); err != nil {
			return err
		}
		if err := os.WriteFile(real, content, 0o644); err != nil {
			return err
		}
		ov[virtual] = real
		return nil
	}
	// shims
	for _, s := range []string{"rt", "fakenet", "faketime"} {
		files, _ := filepath.Glob(filepath.Join(cfg.verifDir, "shim", s, "*.go"))
		for _, f := range files {
			b, err := os.ReadFile(f)
			if err != nil {
				return nil, nil, err
			}
			b = []byte(strings.ReplaceAll(string(b), "MODULEPATH", mod))
			if err := put(filepath.Join(cfg.repoDir, "zzverif", s, filepath.Base(f)), b); err != nil {
				return nil, nil, err
			}
		}
	}
	// harnesses
	files, _ := filepath.Glob(filepath.Join(cfg.verifDir, "harness", "*.go"))
	sort.Strings(files)
	for _, f := range files {
		b, err := os.ReadFile(f)
		if err != nil {
			return nil, nil, err
		}
		b = []byte(strings.ReplaceAll(string(b), "MODULEPATH", mod))
		for _, m := range harnessFuncRe.FindAllSubmatch(b, -1) {
			harnessFuncs = append(harnessFuncs, string(m[1]))
		}
		if err := put(filepath.Join(cfg.repoDir, "zz_verif_"+filepath.Base(f)), b); err != nil {
			return nil, nil, err
		}
	}
	// import-rewritten copies of repository files
	srcs, _ := filepath.Glob(filepath.Join(cfg.repoDir, "*.go"))
	for _, f := range srcs {
		if strings.HasSuffix(f, "_test.go") {
			continue
		}
		b, err := os.ReadFile(f)
		if err != nil {
			return nil, nil, err
		}
		if nb, changed := rewriteImports(b, mod); changed {
			if err := put(f, nb); err != nil {
				return nil, nil, err
			}
		}
	}
	// replay test driver
	var sb strings.Builder
	sb.WriteString("package main\n\nimport (\n\t\"testing\"\n\t\"" + mod + "/zzverif/rt\"\n)\n\nfunc TestVerifReplay(t *testing.T) {\n\trt.RunCase(map[string]func(){\n")
	for _, h := range harnessFuncs {
		fmt.Fprintf(&sb, "\t\t%q: %s,\n", h, h)
	}
	sb.WriteString("\t})\n}\n")
	if err := put(filepath.Join(cfg.repoDir, "zz_verif_replay_test.go"), []byte(sb.String())); err != nil {
		return nil, nil, err
	}
	return ov, harnessFuncs, nil
}

func modulePath(repo string) (string, error) {
	b, err := os.ReadFile(filepath.Join(repo, "go.mod"))
	if err != nil {
		return "", err
	}
	for _, ln := range strings.Split(string(b), "\n") {
		if strings.HasPrefix(ln, "module ") {
			return strings.TrimSpace(strings.TrimPrefix(ln, "module ")), nil
		}
	}
	return "", fmt.Errorf("no module line in go.mod")
}

func loadEngine(cfg *Config) (*Engine, error) {
	mod, err := modulePath(cfg.repoDir)
	if err != nil {
		return nil, err
	}
	ov, _, err := buildOverlay(cfg, mod)
	if err != nil {
		return nil, err
	}
	// overlay JSON for the go tool
	type ovj struct{ Replace map[string]string }
	jb, _ := json.MarshalIndent(ovj{Replace: ov}, "", " ")
	ovPath := filepath.Join(cfg.scratch, "overlay.json")
	if err := os.WriteFile(ovPath, jb, 0o644); err != nil {
		return nil, err
	}
	overlay := map[string][]byte{}
	for v, r := range ov {
		if strings.HasSuffix(v, "_test.go") {
			continue
		}
		b, err := os.ReadFile(r)
		if err != nil {
			return nil, err
		}
		overlay[v] = b
	}
	pcfg := &packages.Config{Mode: packages.LoadAllSyntax, Dir: cfg.repoDir, Overlay: overlay,
		Env: append(os.Environ(), "GOFLAGS=-mod=mod", "GOPROXY=off", "GOSUMDB=off", "GOTOOLCHAIN=local"), BuildFlags: []string{"-tags=verif"}}
	pkgs, err := packages.Load(pcfg, ".")
	if err != nil {
		return nil, err
	}
	var errs []string
	packages.Visit(pkgs, nil, func(p *packages.Package) {
		for _, e := range p.Errors {
			errs = append(errs, e.Error())
		}
	})
	if len(errs) > 0 {
		if len(errs) > 12 {
			errs = errs[:12]
		}
		return nil, fmt.Errorf("build of /repo with the verification overlay failed:\n%s", strings.Join(errs, "\n"))
	}
	prog, spkgs := ssautil.AllPackages(pkgs, ssa.InstantiateGenerics)
	prog.Build()
	eng := &Engine{cfg: cfg, prog: prog, pkgs: map[string]*ssa.Package{}, stats: &Stats{}, logw: os.Stderr,
		overlayJSON: ovPath, modPath: mod, rtPath: mod + "/zzverif/rt"}
	cfg.stats = eng.stats
	for _, p := range prog.AllPackages() {
		eng.pkgs[p.Pkg.Path()] = p
	}
	if len(spkgs) == 0 || spkgs[0] == nil {
		return nil, fmt.Errorf("no SSA package for /repo")
	}
	eng.mainPkg = spkgs[0]
	if ep := eng.pkgs["errors"]; ep != nil {
		eng.errorStringType = ep.Type("errorString").Type()
	}
	if ip := eng.pkgs["io"]; ip != nil {
		eng.ioEOF = ip.Var("EOF")
		eng.ioUnexpectedEOF = ip.Var("ErrUnexpectedEOF")
	}
	if bp := eng.pkgs["bufio"]; bp != nil {
		eng.bufioErrInvalidUnreadByte = bp.Var("ErrInvalidUnreadByte")
		eng.bufioErrBufferFull = bp.Var("ErrBufferFull")
	}
	if eng.errorStringType == nil || eng.ioEOF == nil {
		return nil, fmt.Errorf("standard packages errors/io not found in the program")
	}
	return eng, nil
}

var stdErrorGlobals = map[string]string{
	"io.EOF":                     "EOF",
	"io.ErrUnexpectedEOF":        "unexpected EOF",
	"io.ErrShortWrite":           "short write",
	"io.ErrClosedPipe":           "io: read/write on closed pipe",
	"bufio.ErrInvalidUnreadByte": "bufio: invalid use of UnreadByte",
	"bufio.ErrBufferFull":        "bufio: buffer full",
	"net.ErrClosed":              "use of closed network connection",
	"os.ErrDeadlineExceeded":     "i/o timeout",
}

var _ = types.Typ
