package main

// Cooperative scheduler for symbolic goroutines: each is a host goroutine, exactly one runs at a
// time (baton passing). Blocking points: channel operations, select, mutexes, sleep, Quiesce.

import (
	"fmt"
	"go/types"
	"sync"

	"golang.org/x/tools/go/ssa"
)

type Goroutine struct {
	id     int
	name   string
	resume chan struct{}
	done   bool
	in     *Interp
	ready  func() bool // nil: runnable
	why    string
	vc     VC // strong happens-before: go, channels, atomics, quiescence
	vcFull VC // ... plus mutex unlock -> lock (used for byte buffers handed over through a pool)
	locks  map[*Cell]bool
}

type Sched struct {
	p        *Path
	gs       []*Goroutine
	cur      *Goroutine
	killed   bool
	abortErr *pathAbort
	wg       sync.WaitGroup
	activity int64
	budget   int  // remaining voluntary context switches
	taken    []string // the context switches this path forced, in order
	explore  bool // forced switches choose among runnable goroutines by decision
	reverse  bool // deterministic policy: pick the runnable goroutine with the next LOWER id
}

type killSignal struct{}

func newSched(p *Path) *Sched {
	s := &Sched{p: p}
	return s
}

func (s *Sched) mainGoroutine(in *Interp) *Goroutine {
	g := &Goroutine{id: 0, name: "main", resume: make(chan struct{}), in: in, vc: VC{}, locks: map[*Cell]bool{}}
	in.g = g
	s.gs = append(s.gs, g)
	s.cur = g
	return g
}

func (s *Sched) spawn(parent *Interp, body func(g *Interp), name string) {
	g := &Goroutine{id: len(s.gs), name: name, resume: make(chan struct{}), locks: map[*Cell]bool{}}
	gi := &Interp{p: s.p, eng: parent.eng, g: g}
	g.in = gi
	if s.p.mon != nil {
		if parent.g.vc == nil {
			parent.g.vc = VC{}
		}
		g.vc = parent.g.vc.copy().tick(g.id)
		parent.g.vc = parent.g.vc.tick(parent.g.id)
		if parent.g.vcFull == nil {
			parent.g.vcFull = VC{}
		}
		g.vcFull = parent.g.vcFull.copy().tick(g.id)
		parent.g.vcFull = parent.g.vcFull.tick(parent.g.id)
	}
	s.gs = append(s.gs, g)
	s.activity++
	s.wg.Add(1)
	go func() {
		defer s.wg.Done()
		<-g.resume
		if s.killed {
			return
		}
		defer func() {
			if r := recover(); r != nil {
				switch x := r.(type) {
				case killSignal:
					return
				case pathAbort:
					if s.abortErr == nil {
						s.abortErr = &x
					}
				default:
					if s.abortErr == nil {
						s.abortErr = &pathAbort{"internal", fmt.Sprintf("internal error in goroutine %s: %v", g.name, r)}
					}
				}
				g.done = true
				s.killed = true
				// hand control back to main, which re-raises the abort
				s.gs[0].resume <- struct{}{}
				return
			}
		}()
		body(gi)
		g.done = true
		s.activity++
		s.exitSwitch(g)
	}()
}

func (s *Sched) runnable(g *Goroutine) bool {
	return !g.done && (g.ready == nil || g.ready())
}

// pick chooses the next goroutine to run after `from` blocked or exited.
func (s *Sched) pick(from *Goroutine) *Goroutine {
	var cands []*Goroutine
	n := len(s.gs)
	for k := 1; k <= n; k++ {
		g := s.gs[(from.id+k)%n]
		if s.reverse {
			g = s.gs[((from.id-k)%n+n)%n]
		}
		if s.runnable(g) {
			cands = append(cands, g)
		}
	}
	if len(cands) == 0 {
		return nil
	}
	if s.explore && len(cands) > 1 {
		return cands[s.p.choice("sched", len(cands))]
	}
	return cands[0]
}

func (s *Sched) deadlock() {
	desc := ""
	for _, g := range s.gs {
		if !g.done {
			desc += fmt.Sprintf(" %s:%s", g.name, g.why)
		}
	}
	s.p.recordDeadlock("all goroutines blocked:" + desc)
	ab := pathAbort{"deadlock", desc}
	s.abortErr = &ab
}

// switchFrom parks g and runs another goroutine until g is scheduled again.
func (s *Sched) switchFrom(g *Goroutine) {
	next := s.pick(g)
	if next == nil {
		s.deadlock()
		if g.id == 0 {
			panic(*s.abortErr)
		}
		s.killed = true
		s.gs[0].resume <- struct{}{}
		<-g.resume
		panic(killSignal{})
	}
	if next == g {
		return
	}
	s.cur = next
	next.resume <- struct{}{}
	<-g.resume
	s.afterResume(g)
}

func (s *Sched) afterResume(g *Goroutine) {
	if g.id == 0 {
		if s.abortErr != nil {
			panic(*s.abortErr)
		}
		return
	}
	if s.killed {
		panic(killSignal{})
	}
}

// exitSwitch hands the baton on when a goroutine finishes.
func (s *Sched) exitSwitch(g *Goroutine) {
	next := s.pick(g)
	if next == nil {
		s.deadlock()
		s.killed = true
		s.gs[0].resume <- struct{}{}
		return
	}
	s.cur = next
	next.resume <- struct{}{}
}

// wait blocks the calling goroutine until ready() holds.
func (s *Sched) wait(in *Interp, why string, ready func() bool) {
	g := in.g
	for !ready() {
		g.ready, g.why = ready, why
		s.switchFrom(g)
	}
	g.ready, g.why = nil, ""
}

// preempt is a voluntary scheduling point (lock acquisitions, channel operations).
func (s *Sched) preempt(in *Interp) {
	if s.budget <= 0 {
		return
	}
	g := in.g
	var others []*Goroutine
	for _, o := range s.gs {
		if o != g && s.runnable(o) {
			others = append(others, o)
		}
	}
	if len(others) == 0 {
		return
	}
	c := s.p.choice("preempt", len(others)+1)
	if c == 0 {
		return
	}
	s.budget--
	next := others[c-1]
	w, _ := in.whereNow()
	s.taken = append(s.taken, fmt.Sprintf("%s is preempted at %s, %s runs", g.name, w, next.name))
	s.cur = next
	next.resume <- struct{}{}
	<-g.resume
	s.afterResume(g)
}

// finish terminates all parked goroutines at the end of a path.
func (s *Sched) finish() {
	s.killed = true
	for _, g := range s.gs[1:] {
		if !g.done {
			g.done = true
			g.resume <- struct{}{}
		}
	}
	s.wg.Wait()
}

// quiesce blocks until every other goroutine is blocked.
func (s *Sched) quiesce(in *Interp) {
	g := in.g
	for {
		any := false
		for _, o := range s.gs {
			if o != g && s.runnable(o) {
				any = true
				break
			}
		}
		if !any {
			return
		}
		g.ready = func() bool {
			for _, o := range s.gs {
				if o != g && s.runnable(o) {
					return false
				}
			}
			return true
		}
		g.why = "quiesce"
		s.switchFrom(g)
		g.ready, g.why = nil, ""
	}
}

// ---------------------------------------------------------------- channels

func (s *Sched) send(in *Interp, ch *ChanObj, v Value) {
	if ch == nil {
		s.wait(in, "send on nil channel", func() bool { return false })
	}
	s.preempt(in)
	if ch.closed {
		in.panicGo("send on closed channel")
	}
	if ch.cap > 0 {
		s.wait(in, "chan send", func() bool { return len(ch.buf) < ch.cap })
		s.push(in, ch, v)
		return
	}
	// unbuffered: hand over and wait until taken
	s.push(in, ch, v)
	tok := in.p.newToken()
	ch.tokens = append(ch.tokens, tok)
	s.wait(in, "chan send (unbuffered)", func() bool {
		for _, t := range ch.tokens {
			if t == tok {
				return false
			}
		}
		return true
	})
}

func (s *Sched) push(in *Interp, ch *ChanObj, v Value) {
	ch.buf = append(ch.buf, v)
	s.activity++
	if s.p.mon != nil {
		if in.g.vc == nil {
			in.g.vc = VC{}
		}
		ch.clocks = append(ch.clocks, in.g.vc.copy())
		in.g.vc = in.g.vc.tick(in.g.id)
		if in.g.vcFull == nil {
			in.g.vcFull = VC{}
		}
		ch.clocksFull = append(ch.clocksFull, in.g.vcFull.copy())
		in.g.vcFull = in.g.vcFull.tick(in.g.id)
	}
}

func (s *Sched) pop(in *Interp, ch *ChanObj) Value {
	v := ch.buf[0]
	ch.buf = ch.buf[1:]
	if ch.cap == 0 && len(ch.tokens) > 0 {
		ch.tokens = ch.tokens[1:]
	}
	s.activity++
	if s.p.mon != nil && len(ch.clocks) > 0 {
		in.g.vc = in.g.vc.join(ch.clocks[0]).tick(in.g.id)
		ch.clocks = ch.clocks[1:]
		if len(ch.clocksFull) > 0 {
			in.g.vcFull = in.g.vcFull.join(ch.clocksFull[0]).tick(in.g.id)
			ch.clocksFull = ch.clocksFull[1:]
		}
	}
	return v
}

func (s *Sched) recv(in *Interp, ch *ChanObj) (Value, bool) {
	if ch == nil {
		s.wait(in, "receive on nil channel", func() bool { return false })
	}
	s.preempt(in)
	s.wait(in, "chan receive", func() bool { return len(ch.buf) > 0 || ch.closed })
	if len(ch.buf) > 0 {
		return s.pop(in, ch), true
	}
	return nil, false
}

func (s *Sched) closeChan(in *Interp, ch *ChanObj) {
	if ch == nil || ch.closed {
		in.panicGo("close of nil or closed channel")
	}
	ch.closed = true
	s.activity++
}

func (s *Sched) selectOp(in *Interp, fr *Frame, x *ssa.Select) Value {
	type st struct {
		ch   *ChanObj
		send bool
		v    Value
	}
	states := make([]st, len(x.States))
	for i, c := range x.States {
		ch, _ := in.get(fr, c.Chan).(*ChanObj)
		states[i] = st{ch: ch, send: c.Dir == types.SendOnly}
		if states[i].send {
			states[i].v = in.get(fr, c.Send)
		}
	}
	s.preempt(in)
	readyIdx := func() []int {
		var r []int
		for i, c := range states {
			if c.ch == nil {
				continue
			}
			if c.send {
				if c.ch.cap > 0 && len(c.ch.buf) < c.ch.cap {
					r = append(r, i)
				}
			} else if len(c.ch.buf) > 0 || c.ch.closed {
				r = append(r, i)
			}
		}
		return r
	}
	if !x.Blocking {
		if len(readyIdx()) == 0 {
			return s.selectResult(in, x, -1, nil, false)
		}
	} else {
		s.wait(in, "select", func() bool { return len(readyIdx()) > 0 })
	}
	r := readyIdx()
	idx := r[0]
	if len(r) > 1 && s.p.selectChoice {
		k := s.p.choice("select", len(r))
		idx = r[k]
		// which ready case a select takes is the runtime's (random) choice: part of the schedule
		w, _ := in.whereNow()
		s.taken = append(s.taken, fmt.Sprintf("%s: select at %s takes ready case %d of %d", in.g.name, w, k+1, len(r)))
	}
	c := states[idx]
	if c.send {
		s.push(in, c.ch, c.v)
		return s.selectResult(in, x, idx, nil, false)
	}
	if len(c.ch.buf) > 0 {
		return s.selectResult(in, x, idx, s.pop(in, c.ch), true)
	}
	return s.selectResult(in, x, idx, nil, false)
}

func (s *Sched) selectResult(in *Interp, x *ssa.Select, idx int, v Value, ok bool) Value {
	tt := x.Type().(*types.Tuple)
	res := make(TupleV, tt.Len())
	res[0] = mkInt(int64(idx))
	res[1] = mkBool(ok)
	k := 2
	for i, c := range x.States {
		if c.Dir == types.RecvOnly {
			if i == idx && v != nil {
				res[k] = v
			} else {
				res[k] = in.zero(tt.At(k).Type())
			}
			k++
		}
	}
	return res
}

// ---------------------------------------------------------------- mutexes

func (s *Sched) lock(in *Interp, m *Cell) {
	s.preempt(in)
	if in.g.locks[m] {
		s.p.recordDeadlock("goroutine " + in.g.name + " re-locks a mutex it already holds")
		in.p.abort("deadlock", "self-deadlock on mutex")
	}
	st := m.v.(*StructV)
	s.wait(in, "mutex", func() bool { l := st.f[0].v.(IntV).l; return l.isConst() && l.c == 0 })
	st.f[0].v = mkInt(1)
	in.g.locks[m] = true
	if s.p.mon != nil {
		s.p.mon.lockOrder(in, m)
		// unlock -> lock is a happens-before edge (publication through a mutex is not a race)
		if c, ok := s.p.mon.mutexVC[m]; ok {
			if s.p.mon.mutexHB {
				if in.g.vc == nil {
					in.g.vc = VC{}
				}
				in.g.vc = in.g.vc.join(c)
			}
			in.g.vcFull = in.g.vcFull.join(c)
		}
	}
}

func (s *Sched) unlock(in *Interp, m *Cell) {
	st := m.v.(*StructV)
	if l := st.f[0].v.(IntV).l; l.isConst() && l.c == 0 {
		in.panicGo("fatal error: sync: unlock of unlocked mutex")
	}
	st.f[0].v = mkInt(0)
	if s.p.mon != nil {
		if in.g.vc == nil {
			in.g.vc = VC{}
		}
		if in.g.vcFull == nil {
			in.g.vcFull = VC{}
		}
		s.p.mon.mutexVC[m] = in.g.vcFull.copy()
		in.g.vcFull = in.g.vcFull.tick(in.g.id)
		in.g.vc = in.g.vc.tick(in.g.id)
	}
	delete(in.g.locks, m)
	for _, g := range s.gs {
		delete(g.locks, m)
	}
	s.activity++
}
