package main

// Integer terms (linear forms over integer variables), boolean constraint terms, intervals.

import (
	"fmt"
	"math"
	"sort"
	"strings"
)

const (
	posInf = math.MaxInt64
	negInf = math.MinInt64
)

func satAdd(a, b int64) int64 {
	if a == posInf || b == posInf {
		if a == negInf || b == negInf {
			return 0
		}
		return posInf
	}
	if a == negInf || b == negInf {
		return negInf
	}
	c := a + b
	if a > 0 && b > 0 && c < 0 {
		return posInf
	}
	if a < 0 && b < 0 && c >= 0 {
		return negInf
	}
	return c
}

func satMul(a, b int64) int64 {
	if a == 0 || b == 0 {
		return 0
	}
	neg := (a < 0) != (b < 0)
	if a == posInf || a == negInf || b == posInf || b == negInf {
		if neg {
			return negInf
		}
		return posInf
	}
	c := a * b
	if c/b != a || (c < 0) != neg {
		if neg {
			return negInf
		}
		return posInf
	}
	return c
}

// LinTerm is k*var.
type LinTerm struct {
	v int
	k int64
}

// Lin is c + sum k_i*v_i, terms sorted by variable id, all k != 0.
type Lin struct {
	c  int64
	ts []LinTerm
}

func linC(c int64) Lin      { return Lin{c: c} }
func linV(v int) Lin        { return Lin{ts: []LinTerm{{v, 1}}} }
func (l Lin) isConst() bool { return len(l.ts) == 0 }

func (l Lin) add(m Lin) Lin {
	out := Lin{c: l.c + m.c}
	i, j := 0, 0
	for i < len(l.ts) || j < len(m.ts) {
		switch {
		case j >= len(m.ts) || (i < len(l.ts) && l.ts[i].v < m.ts[j].v):
			out.ts = append(out.ts, l.ts[i])
			i++
		case i >= len(l.ts) || m.ts[j].v < l.ts[i].v:
			out.ts = append(out.ts, m.ts[j])
			j++
		default:
			k := l.ts[i].k + m.ts[j].k
			if k != 0 {
				out.ts = append(out.ts, LinTerm{l.ts[i].v, k})
			}
			i++
			j++
		}
	}
	return out
}

func (l Lin) scale(k int64) Lin {
	if k == 0 {
		return Lin{}
	}
	out := Lin{c: l.c * k}
	for _, t := range l.ts {
		out.ts = append(out.ts, LinTerm{t.v, t.k * k})
	}
	return out
}

func (l Lin) sub(m Lin) Lin    { return l.add(m.scale(-1)) }
func (l Lin) addC(c int64) Lin { return Lin{c: l.c + c, ts: l.ts} }

func (l Lin) eq(m Lin) bool {
	if l.c != m.c || len(l.ts) != len(m.ts) {
		return false
	}
	for i := range l.ts {
		if l.ts[i] != m.ts[i] {
			return false
		}
	}
	return true
}

func (l Lin) String() string {
	var sb strings.Builder
	fmt.Fprintf(&sb, "%d", l.c)
	for _, t := range l.ts {
		fmt.Fprintf(&sb, "%+d*v%d", t.k, t.v)
	}
	return sb.String()
}

func (l Lin) sorted() Lin {
	sort.Slice(l.ts, func(i, j int) bool { return l.ts[i].v < l.ts[j].v })
	return l
}

// CmpOp compares a Lin with zero.
type CmpOp int

const (
	EQ0 CmpOp = iota
	NE0
	LT0
	LE0
)

type BKind int

const (
	BTrue BKind = iota
	BFalse
	BLin   // lin op 0
	BStrEq // a == b
	BStrLt // a < b
	BStrLe // a <= b
	BInRe  // a in re
	BNot
	BAnd
	BOr
)

// B is a boolean constraint term.
type B struct {
	k   BKind
	lin Lin
	op  CmpOp
	a   NF
	b   NF
	re  *Re
	xs  []*B
	noRewrite bool // BLin: the canonical-decimal rewrite has been applied already
}

var bTrue = &B{k: BTrue}
var bFalse = &B{k: BFalse}

func bConst(v bool) *B {
	if v {
		return bTrue
	}
	return bFalse
}

func bNot(x *B) *B {
	switch x.k {
	case BTrue:
		return bFalse
	case BFalse:
		return bTrue
	case BNot:
		return x.xs[0]
	case BLin:
		switch x.op {
		case EQ0:
			return &B{k: BLin, lin: x.lin, op: NE0}
		case NE0:
			return &B{k: BLin, lin: x.lin, op: EQ0}
		case LT0: // !(l<0) == -l <= 0
			return &B{k: BLin, lin: x.lin.scale(-1), op: LE0}
		case LE0: // !(l<=0) == -l < 0
			return &B{k: BLin, lin: x.lin.scale(-1), op: LT0}
		}
	case BStrLt: // !(a<b) == b<=a
		return &B{k: BStrLe, a: x.b, b: x.a}
	case BStrLe:
		return &B{k: BStrLt, a: x.b, b: x.a}
	}
	return &B{k: BNot, xs: []*B{x}}
}

func bAnd(xs ...*B) *B {
	var out []*B
	for _, x := range xs {
		switch x.k {
		case BTrue:
		case BFalse:
			return bFalse
		case BAnd:
			out = append(out, x.xs...)
		default:
			out = append(out, x)
		}
	}
	if len(out) == 0 {
		return bTrue
	}
	if len(out) == 1 {
		return out[0]
	}
	return &B{k: BAnd, xs: out}
}

func bOr(xs ...*B) *B {
	var out []*B
	for _, x := range xs {
		switch x.k {
		case BFalse:
		case BTrue:
			return bTrue
		case BOr:
			out = append(out, x.xs...)
		default:
			out = append(out, x)
		}
	}
	if len(out) == 0 {
		return bFalse
	}
	if len(out) == 1 {
		return out[0]
	}
	return &B{k: BOr, xs: out}
}

func bLin(l Lin, op CmpOp) *B {
	if l.isConst() {
		switch op {
		case EQ0:
			return bConst(l.c == 0)
		case NE0:
			return bConst(l.c != 0)
		case LT0:
			return bConst(l.c < 0)
		case LE0:
			return bConst(l.c <= 0)
		}
	}
	return &B{k: BLin, lin: l, op: op}
}

// ByteSet is a set of byte values.
type ByteSet [4]uint64

func (s ByteSet) has(b byte) bool { return s[b>>6]&(1<<(b&63)) != 0 }
func (s *ByteSet) add(b byte)     { s[b>>6] |= 1 << (b & 63) }
func (s *ByteSet) del(b byte)     { s[b>>6] &^= 1 << (b & 63) }
func (s ByteSet) and(t ByteSet) ByteSet {
	return ByteSet{s[0] & t[0], s[1] & t[1], s[2] & t[2], s[3] & t[3]}
}
func (s ByteSet) or(t ByteSet) ByteSet {
	return ByteSet{s[0] | t[0], s[1] | t[1], s[2] | t[2], s[3] | t[3]}
}
func (s ByteSet) minus(t ByteSet) ByteSet {
	return ByteSet{s[0] &^ t[0], s[1] &^ t[1], s[2] &^ t[2], s[3] &^ t[3]}
}
func (s ByteSet) not() ByteSet    { return ByteSet{^s[0], ^s[1], ^s[2], ^s[3]} }
func (s ByteSet) empty() bool     { return s[0]|s[1]|s[2]|s[3] == 0 }
func (s ByteSet) subsetOf(t ByteSet) bool { return s.minus(t).empty() }
func (s ByteSet) count() int {
	n := 0
	for i := 0; i < 256; i++ {
		if s.has(byte(i)) {
			n++
		}
	}
	return n
}
func (s ByteSet) first() (byte, bool) {
	for i := 0; i < 256; i++ {
		if s.has(byte(i)) {
			return byte(i), true
		}
	}
	return 0, false
}
func (s ByteSet) single() (byte, bool) {
	if s.count() == 1 {
		return s.first()
	}
	return 0, false
}

func setOf(bs ...byte) ByteSet {
	var s ByteSet
	for _, b := range bs {
		s.add(b)
	}
	return s
}
func setRange(lo, hi byte) ByteSet {
	var s ByteSet
	for i := int(lo); i <= int(hi); i++ {
		s.add(byte(i))
	}
	return s
}
func setStr(str string) ByteSet {
	var s ByteSet
	for i := 0; i < len(str); i++ {
		s.add(str[i])
	}
	return s
}

var setAll = ByteSet{^uint64(0), ^uint64(0), ^uint64(0), ^uint64(0)}
var setDigits = setRange('0', '9')
var setASCIISpace = setOf('\t', '\n', '\v', '\f', '\r', ' ')
var setHigh = setRange(0x80, 0xff)
var setSpaceLead = setOf(0xC2, 0xE1, 0xE2, 0xE3) // lead bytes of multi-byte Unicode spaces

// smtLit renders a byte string as an SMT-LIB string literal (bytes = code points 0..255).
func smtLit(s string) string {
	var sb strings.Builder
	sb.WriteByte('"')
	for i := 0; i < len(s); i++ {
		c := s[i]
		if c >= 0x20 && c < 0x7f && c != '"' && c != '\\' {
			sb.WriteByte(c)
		} else {
			fmt.Fprintf(&sb, "\\u{%x}", c)
		}
	}
	sb.WriteByte('"')
	return sb.String()
}

func smtChar(c byte) string { return smtLit(string([]byte{c})) }

var classCache = map[ByteSet]string{}

// smtClass renders a byte set as an SMT regex matching exactly one byte of the set.
func smtClass(s ByteSet) string {
	if s.empty() {
		return "re.none"
	}
	var parts []string
	i := 0
	for i < 256 {
		if !s.has(byte(i)) {
			i++
			continue
		}
		j := i
		for j+1 < 256 && s.has(byte(j+1)) {
			j++
		}
		if i == j {
			parts = append(parts, "(str.to_re "+smtChar(byte(i))+")")
		} else {
			parts = append(parts, "(re.range "+smtChar(byte(i))+" "+smtChar(byte(j))+")")
		}
		i = j + 1
	}
	if len(parts) == 1 {
		return parts[0]
	}
	return "(re.union " + strings.Join(parts, " ") + ")"
}

func smtInt(c int64) string {
	if c < 0 {
		if c == math.MinInt64 {
			return "(- 9223372036854775808)"
		}
		return fmt.Sprintf("(- %d)", -c)
	}
	return fmt.Sprintf("%d", c)
}
