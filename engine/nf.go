package main

// String operations on normal forms. Every operation that depends on atom contents case-splits
// (fork) and refines or splits atoms, so that only word equations, class memberships and linear
// arithmetic ever reach the solver.

import (
	"strconv"
	"strings"
)

// byteVal is one byte: concrete or a 1-byte atom.
type byteVal struct {
	c    byte
	atom int // != 0: symbolic byte
}

func (b byteVal) nf() NF {
	if b.atom != 0 {
		return NF{{atom: b.atom}}
	}
	return nfLit(string([]byte{b.c}))
}

// narrow restricts an atom's class.
func (p *Path) narrow(a *Atom, cls ByteSet) {
	nc := a.cls.and(cls)
	if nc == a.cls {
		return
	}
	a.cls = nc
	if nc.empty() {
		if p.alo(a) > 0 {
			p.abort("infeasible", "class emptied")
		}
		p.ivars[a.lenv].hi = 0
	}
}

// splitAtom replaces A by A1 . w . A2 where w is one byte of `set` and A1 has no byte of `set`
// (first=true) or A2 has none (first=false).
func (p *Path) splitAtom(a *Atom, set ByteSet, first bool) (NF, byteVal, NF) {
	lo, hi := p.alo(a), p.ahi(a)
	inter := a.cls.and(set)
	c1, c2 := a.cls, a.cls
	if first {
		c1 = a.cls.minus(set)
	} else {
		c2 = a.cls.minus(set)
	}
	a1 := p.newAtom(a.name+"<", c1, 0, hi-1)
	a2 := p.newAtom(a.name+">", c2, 0, hi-1)
	var w byteVal
	if c, ok := inter.single(); ok {
		w = byteVal{c: c}
	} else {
		wa := p.newAtom(a.name+"|", inter, 1, 1)
		w = byteVal{atom: wa.id}
	}
	t := nfCat(NF{{atom: a1.id}}, w.nf(), NF{{atom: a2.id}})
	p.rebind(a, t, lo, hi)
	return p.res(NF{{atom: a1.id}}), w, p.res(NF{{atom: a2.id}})
}

// rebind substitutes atom a by t (built from fresh atoms), carrying over its constraints.
func (p *Path) rebind(a *Atom, t NF, lo, hi int64) {
	wasDep := p.depAtom[a.id]
	lenDep := p.depVar[a.lenv]
	lenT := p.lenOf(t)
	a.bound, a.to = true, t
	lv := p.ivars[a.lenv]
	lv.bound, lv.to = true, lenT
	for _, s := range t {
		if s.atom != 0 {
			if wasDep {
				p.depAtom[s.atom] = true
			}
			if lenDep {
				p.depVar[p.atoms[s.atom].lenv] = true
			}
		}
	}
	tlo, thi := p.interval(lenT)
	if thi > hi {
		p.assume(bLin(lenT.addC(-hi), LE0))
	}
	if tlo < lo {
		p.assume(bLin(linC(lo).sub(lenT), LE0))
	}
	if a.re != nil {
		p.assume(&B{k: BInRe, a: t, re: a.re})
	}
	for _, e := range a.excl {
		p.assume(bNot(p.strEq(t, nfLit(e))))
	}
}

// splitFirst finds the first byte of s that lies in set.
func (p *Path) splitFirst(s NF, set ByteSet) (before NF, w byteVal, after NF, found bool) {
	s = p.res(s)
	for i := 0; i < len(s); i++ {
		sg := s[i]
		if sg.atom == 0 {
			for j := 0; j < len(sg.lit); j++ {
				if set.has(sg.lit[j]) {
					return nfCat(s[:i], nfLit(sg.lit[:j])), byteVal{c: sg.lit[j]}, nfCat(nfLit(sg.lit[j+1:]), s[i+1:]), true
				}
			}
			continue
		}
		a := p.atoms[sg.atom]
		inter := a.cls.and(set)
		if inter.empty() {
			continue
		}
		none := &B{k: BInRe, a: NF{sg}, re: reClassStar(a.cls.minus(set))}
		if p.containsFork("contains", a, set, none) {
			p.narrow(a, set.not())
			if p.ahi(a) == 0 {
				// atom vanished: re-resolve remaining
				s = p.res(s)
				i = -1
			}
			continue
		}
		a1, wv, a2 := p.splitAtom(a, set, true)
		return nfCat(s[:i], a1), wv, nfCat(a2, s[i+1:]), true
	}
	return s, byteVal{}, NF{}, false
}

// splitLast finds the last byte of s that lies in set.
func (p *Path) splitLast(s NF, set ByteSet) (before NF, w byteVal, after NF, found bool) {
	s = p.res(s)
	for i := len(s) - 1; i >= 0; i-- {
		sg := s[i]
		if sg.atom == 0 {
			for j := len(sg.lit) - 1; j >= 0; j-- {
				if set.has(sg.lit[j]) {
					return nfCat(s[:i], nfLit(sg.lit[:j])), byteVal{c: sg.lit[j]}, nfCat(nfLit(sg.lit[j+1:]), s[i+1:]), true
				}
			}
			continue
		}
		a := p.atoms[sg.atom]
		inter := a.cls.and(set)
		if inter.empty() {
			continue
		}
		none := &B{k: BInRe, a: NF{sg}, re: reClassStar(a.cls.minus(set))}
		if p.containsFork("containsLast", a, set, none) {
			p.narrow(a, set.not())
			if p.ahi(a) == 0 {
				s = p.res(s)
				i = len(s)
			}
			continue
		}
		a1, wv, a2 := p.splitAtom(a, set, false)
		return nfCat(s[:i], a1), wv, nfCat(a2, s[i+1:]), true
	}
	return s, byteVal{}, NF{}, false
}

// containsFork decides between "a has no byte of set" (true) and "a has one" (false).
// The caller narrows (true) or splits (false) the atom afterwards.
func (p *Path) containsFork(label string, a *Atom, set ByteSet, none *B) bool {
	rest := a.cls.minus(set)
	if p.indepContent(a) && len(a.excl) == 0 {
		if p.indepLen(a) {
			noneOK := !rest.empty() || p.alo(a) == 0
			someOK := p.ahi(a) >= 1
			p.nSyntactic++
			if noneOK && someOK {
				return p.choice(label, 2) == 0
			}
			return noneOK
		}
		if !rest.empty() {
			// content is free, lengths are coupled: "none" is always possible, "some" needs len >= 1
			return p.fork(label, []*B{nil, bLin(linC(1).sub(linV(a.lenv)), LE0)}) == 0
		}
	}
	return p.fork(label, []*B{none, bNot(none)}) == 0
}

// findFirst locates the first byte of s that lies in set without cutting an atom whose bytes
// all lie in set (such an atom matches at its first byte as soon as it is non-empty).
// Returns the part before the match and the part from the match on.
func (p *Path) findFirst(s NF, set ByteSet) (before, from NF, found bool) {
	s = p.res(s)
	for i := 0; i < len(s); i++ {
		sg := s[i]
		if sg.atom == 0 {
			for j := 0; j < len(sg.lit); j++ {
				if set.has(sg.lit[j]) {
					return nfCat(s[:i], nfLit(sg.lit[:j])), nfCat(nfLit(sg.lit[j:]), s[i+1:]), true
				}
			}
			continue
		}
		a := p.atoms[sg.atom]
		if a.cls.and(set).empty() {
			continue
		}
		if a.cls.subsetOf(set) {
			if p.alo(a) >= 1 || !p.branch("atom-empty", bLin(linV(a.lenv), EQ0)) {
				return nfCat(s[:i]), nfCat(s[i:]), true
			}
			continue
		}
		b, w, after, f := p.splitFirst(s[i:], set)
		if !f {
			return p.res(s), NF{}, false
		}
		return nfCat(s[:i], b), nfCat(w.nf(), after), true
	}
	return s, NF{}, false
}

// findLast mirrors findFirst: returns the part up to and including the last match, and the rest.
func (p *Path) findLast(s NF, set ByteSet) (upto, after NF, found bool) {
	s = p.res(s)
	for i := len(s) - 1; i >= 0; i-- {
		sg := s[i]
		if sg.atom == 0 {
			for j := len(sg.lit) - 1; j >= 0; j-- {
				if set.has(sg.lit[j]) {
					return nfCat(s[:i], nfLit(sg.lit[:j+1])), nfCat(nfLit(sg.lit[j+1:]), s[i+1:]), true
				}
			}
			continue
		}
		a := p.atoms[sg.atom]
		if a.cls.and(set).empty() {
			continue
		}
		if a.cls.subsetOf(set) {
			if p.alo(a) >= 1 || !p.branch("atom-empty", bLin(linV(a.lenv), EQ0)) {
				return nfCat(s[:i+1]), nfCat(s[i+1:]), true
			}
			continue
		}
		b, w, aft, f := p.splitLast(s[:i+1], set)
		if !f {
			return NF{}, p.res(s), false
		}
		return nfCat(b, w.nf()), nfCat(aft, s[i+1:]), true
	}
	return NF{}, s, false
}

// indexSet returns the index of the first byte in set, or -1; the string is split accordingly.
func (p *Path) indexSet(s NF, set ByteSet) (Lin, bool) {
	before, _, found := p.findFirst(s, set)
	if !found {
		return linC(-1), false
	}
	return p.lenOf(before), true
}

func (p *Path) lastIndexSet(s NF, set ByteSet) (Lin, bool) {
	upto, _, found := p.findLast(s, set)
	if !found {
		return linC(-1), false
	}
	return p.lenOf(upto).addC(-1), true
}

// firstByteMay reports whether the first byte of s may lie in set (by classes only).
func (p *Path) firstByteMay(s NF, set ByteSet) bool {
	s = p.res(s)
	if len(s) == 0 {
		return false
	}
	if s[0].atom == 0 {
		return set.has(s[0].lit[0])
	}
	return !p.atoms[s[0].atom].cls.and(set).empty()
}

func (p *Path) lastByteMay(s NF, set ByteSet) bool {
	s = p.res(s)
	if len(s) == 0 {
		return false
	}
	l := s[len(s)-1]
	if l.atom == 0 {
		return set.has(l.lit[len(l.lit)-1])
	}
	return !p.atoms[l.atom].cls.and(set).empty()
}

// split implements strings.Split for a single-byte separator.
func (p *Path) split(s NF, sep byte) []NF {
	var out []NF
	set := setOf(sep)
	for n := 0; ; n++ {
		if n > p.eng.cfg.maxPieces {
			p.abort("unwind", "Split produced more pieces than the bound")
		}
		before, _, after, found := p.splitFirst(s, set)
		if !found {
			out = append(out, before)
			return out
		}
		out = append(out, before)
		s = after
	}
}

// locate splits s at byte position pos (0 <= pos <= len(s) must already be established).
func (p *Path) locate(s NF, pos Lin) (NF, NF) {
	s = p.res(s)
	pos = p.resLin(pos)
	prefix := linC(0)
	for i := 0; i < len(s); i++ {
		d := p.resLin(pos.sub(prefix))
		sg := s[i]
		if d.isConst() && d.c == 0 {
			return nfCat(s[:i]), nfCat(s[i:])
		}
		if sg.atom == 0 {
			n := int64(len(sg.lit))
			if d.isConst() {
				if d.c < n {
					return nfCat(s[:i], nfLit(sg.lit[:d.c])), nfCat(nfLit(sg.lit[d.c:]), s[i+1:])
				}
				prefix = prefix.addC(n)
				continue
			}
			// symbolic offset against a literal: beyond, or one of the concrete offsets inside
			conds := []*B{bLin(linC(n).sub(d), LE0)} // d >= n
			for k := int64(0); k < n; k++ {
				conds = append(conds, bLin(d.addC(-k), EQ0))
			}
			o := p.fork("locate-lit", conds)
			if o == 0 {
				prefix = prefix.addC(n)
				continue
			}
			k := int64(o - 1)
			return nfCat(s[:i], nfLit(sg.lit[:k])), nfCat(nfLit(sg.lit[k:]), s[i+1:])
		}
		a := p.atoms[sg.atom]
		L := linV(a.lenv)
		// beyond this atom?  d >= len(A)
		if p.branch("locate-beyond", bLin(L.sub(d), LE0)) {
			prefix = p.resLin(prefix.add(L))
			continue
		}
		// strictly inside: split A := A1 . A2 with len(A1) = d
		lo, hi := p.alo(a), p.ahi(a)
		a1 := p.newAtom(a.name+"[", a.cls, 0, hi)
		a2 := p.newAtom(a.name+"]", a.cls, 1, hi)
		p.rebind(a, NF{{atom: a1.id}, {atom: a2.id}}, lo, hi)
		d = p.resLin(pos.sub(prefix))
		p.assume(bLin(linV(a1.lenv).sub(d), EQ0))
		return nfCat(s[:i], NF{{atom: a1.id}}), nfCat(NF{{atom: a2.id}}, s[i+1:])
	}
	return s, NF{}
}

// slice returns s[lo:hi]; bounds must have been checked by the caller.
func (p *Path) slice(s NF, lo, hi Lin) NF {
	left, _ := p.locate(s, hi)
	_, mid := p.locate(left, lo)
	return p.res(mid)
}

// byteAt returns s[i] (bounds checked by the caller).
func (p *Path) byteAt(s NF, i Lin) byteVal {
	_, rest := p.locate(s, i)
	rest = p.res(rest)
	if len(rest) == 0 {
		p.abort("unsupported", "byteAt past end")
	}
	sg := rest[0]
	if sg.atom == 0 {
		return byteVal{c: sg.lit[0]}
	}
	a := p.atoms[sg.atom]
	if p.alo(a) == 1 && p.ahi(a) == 1 {
		if c, ok := a.cls.single(); ok {
			return byteVal{c: c}
		}
		return byteVal{atom: a.id}
	}
	// first byte of a longer atom: A := b . A'  (A nonempty here because position i is inside s:
	// empty atoms at this position are decided by a fork)
	if p.alo(a) == 0 {
		if p.branch("byteAt-empty", bLin(linV(a.lenv), EQ0)) {
			return p.byteAt(s, i)
		}
	}
	lo, hi := p.alo(a), p.ahi(a)
	b := p.newAtom(a.name+".", a.cls, 1, 1)
	r := p.newAtom(a.name+"'", a.cls, 0, hi-1)
	p.rebind(a, NF{{atom: b.id}, {atom: r.id}}, lo, hi)
	return byteVal{atom: b.id}
}

// hasPrefix builds the condition "s starts with lit".
func (p *Path) hasPrefix(s NF, lit string) *B {
	s = p.res(s)
	if lit == "" {
		return bTrue
	}
	if len(s) == 0 {
		return bFalse
	}
	if s[0].atom == 0 {
		h := s[0].lit
		if len(h) >= len(lit) {
			return bConst(strings.HasPrefix(h, lit))
		}
		if !strings.HasPrefix(lit, h) {
			return bFalse
		}
		return p.hasPrefix(s[1:], lit[len(h):])
	}
	_, hi := p.interval(p.lenOf(s))
	if hi < int64(len(lit)) {
		return bFalse
	}
	a := p.atoms[s[0].atom]
	if p.alo(a) >= 1 && !a.cls.has(lit[0]) {
		return bFalse
	}
	return &B{k: BInRe, a: s, re: rePrefix(lit)}
}

func (p *Path) hasSuffix(s NF, lit string) *B {
	s = p.res(s)
	if lit == "" {
		return bTrue
	}
	if len(s) == 0 {
		return bFalse
	}
	if l := s[len(s)-1]; l.atom == 0 {
		h := l.lit
		if len(h) >= len(lit) {
			return bConst(strings.HasSuffix(h, lit))
		}
		if !strings.HasSuffix(lit, h) {
			return bFalse
		}
		return p.hasSuffix(s[:len(s)-1], lit[:len(lit)-len(h)])
	}
	_, hi := p.interval(p.lenOf(s))
	if hi < int64(len(lit)) {
		return bFalse
	}
	a := p.atoms[s[len(s)-1].atom]
	if p.alo(a) >= 1 && !a.cls.has(lit[len(lit)-1]) {
		return bFalse
	}
	return &B{k: BInRe, a: s, re: reSuffix(lit)}
}

// equalFold builds the condition strings.EqualFold(s, lit).
func (p *Path) equalFold(s NF, lit string) *B {
	s = p.res(s)
	if s.isLit() {
		return bConst(strings.EqualFold(s.litValue(), lit))
	}
	// quick refutation on literal head / tail (ASCII only)
	if s[0].atom == 0 && len(lit) > 0 {
		h := s[0].lit
		n := len(h)
		if n > len(lit) {
			n = len(lit)
		}
		ascii := true
		for i := 0; i < n; i++ {
			if h[i] >= 0x80 || lit[i] >= 0x80 {
				ascii = false
			}
		}
		if ascii && !strings.EqualFold(h[:n], lit[:n]) {
			return bFalse
		}
	}
	lo, hi := p.interval(p.lenOf(s))
	if lo > int64(3*len(lit)) || hi < int64(len(lit)) {
		return bFalse
	}
	// fixed length, every position a literal byte or a 1-byte atom: decide position-wise
	if lo == hi && lo == int64(len(lit)) {
		var pos []Seg
		okShape := true
		for _, sg := range s {
			if sg.atom == 0 {
				for i := 0; i < len(sg.lit); i++ {
					pos = append(pos, Seg{lit: sg.lit[i : i+1]})
				}
			} else if a := p.atoms[sg.atom]; p.alo(a) == 1 && p.ahi(a) == 1 {
				pos = append(pos, sg)
			} else {
				okShape = false
			}
		}
		if okShape && len(pos) == len(lit) {
			all := true
			for i, sg := range pos {
				c := lit[i]
				fs := setOf(c)
				if lc := c | 0x20; lc >= 'a' && lc <= 'z' {
					fs = setOf(lc, lc-0x20)
				}
				if sg.atom == 0 {
					if !fs.has(sg.lit[0]) {
						return bFalse
					}
					continue
				}
				a := p.atoms[sg.atom]
				if a.cls.and(fs).empty() {
					return bFalse
				}
				if !a.cls.subsetOf(fs) {
					all = false
				}
			}
			if all {
				return bTrue
			}
		}
	}
	if len(lit) == 0 {
		return p.simp(bLin(p.lenOf(s), EQ0))
	}
	// atoms whose class cannot produce the needed letters
	return &B{k: BInRe, a: s, re: reFold(lit)}
}

// ---------------------------------------------------------------- space handling

// trimLeftSpace / trimRightSpace implement the two halves of strings.TrimSpace.
func (p *Path) trimLeftSpace(s NF) NF {
	nonSpace := setASCIISpace.not()
	_, from, found := p.findFirst(s, nonSpace)
	if !found {
		return NF{}
	}
	if p.firstByteMay(from, setSpaceLead) {
		p.checkSpaceLead(p.byteAt(from, linC(0)))
	}
	return p.res(from)
}

func (p *Path) trimRightSpace(s NF) NF {
	nonSpace := setASCIISpace.not()
	upto, _, found := p.findLast(s, nonSpace)
	if !found {
		return NF{}
	}
	if p.lastByteMay(upto, setRange(0x80, 0xBF)) {
		p.checkSpaceLead2(p.byteAt(upto, p.lenOf(upto).addC(-1)))
	}
	return p.res(upto)
}

// checkSpaceLead: a byte that may start a multi-byte Unicode space (U+0085, U+00A0, U+1680,
// U+2000.., U+3000) switches Go to rune semantics; that sub-domain is outside the model.
func (p *Path) checkSpaceLead(w byteVal) {
	if w.atom == 0 {
		if setSpaceLead.has(w.c) {
			p.abort("outside", "non-ASCII byte that may start a Unicode space at a trimmed position")
		}
		return
	}
	a := p.atoms[w.atom]
	if a.cls.and(setSpaceLead).empty() {
		return
	}
	if p.containsFork("space-lead", a, setSpaceLead, &B{k: BInRe, a: NF{{atom: a.id}}, re: reClassStar(a.cls.minus(setSpaceLead))}) {
		p.narrow(a, setSpaceLead.not())
		return
	}
	p.abort("outside", "non-ASCII byte that may start a Unicode space at a trimmed position")
}

// checkSpaceLead2: trailing side; continuation bytes 0x80..0xBF may end a Unicode space.
func (p *Path) checkSpaceLead2(w byteVal) {
	tail := setRange(0x80, 0xBF)
	if w.atom == 0 {
		if tail.has(w.c) {
			p.abort("outside", "non-ASCII byte that may end a Unicode space at a trimmed position")
		}
		return
	}
	a := p.atoms[w.atom]
	if a.cls.and(tail).empty() {
		return
	}
	if p.containsFork("space-tail", a, tail, &B{k: BInRe, a: NF{{atom: a.id}}, re: reClassStar(a.cls.minus(tail))}) {
		p.narrow(a, tail.not())
		return
	}
	p.abort("outside", "non-ASCII byte that may end a Unicode space at a trimmed position")
}

func (p *Path) trimSpace(s NF) NF {
	return p.trimRightSpace(p.trimLeftSpace(s))
}

// fields implements strings.Fields (ASCII; non-ASCII bytes that may form Unicode spaces end the
// path as outside the model).
func (p *Path) fields(s NF) []NF {
	var out []NF
	nonSpace := setASCIISpace.not()
	p.checkHighAll(s)
	for n := 0; ; n++ {
		if n > p.eng.cfg.maxPieces {
			p.abort("unwind", "Fields produced more pieces than the bound")
		}
		_, rest, found := p.findFirst(s, nonSpace)
		if !found {
			return out
		}
		field, _, tail, found2 := p.splitFirst(rest, setASCIISpace)
		out = append(out, field)
		if !found2 {
			return out
		}
		s = tail
	}
}

// Fields switches to rune semantics as soon as the string has any byte >= 0x80. With the lead
// bytes of Unicode spaces excluded the result is the same; otherwise outside the model.
func (p *Path) checkHighInField(w byteVal) { p.checkSpaceLead(w) }

func (p *Path) checkHighAll(s NF) {
	for _, sg := range p.res(s) {
		if sg.atom == 0 {
			for i := 0; i < len(sg.lit); i++ {
				if setSpaceLead.has(sg.lit[i]) {
					p.abort("outside", "Unicode-space lead byte inside Fields operand")
				}
			}
			continue
		}
		a := p.atoms[sg.atom]
		if a.cls.and(setSpaceLead).empty() {
			continue
		}
		if p.containsFork("space-lead", a, setSpaceLead, &B{k: BInRe, a: NF{{atom: a.id}}, re: reClassStar(a.cls.minus(setSpaceLead))}) {
			p.narrow(a, setSpaceLead.not())
			continue
		}
		p.abort("outside", "Unicode-space lead byte inside Fields operand")
	}
}

// ---------------------------------------------------------------- integers <-> strings

// atoi implements strconv.Atoi: returns the value and ok=false for a syntax/range error.
func (p *Path) atoi(s NF) (Lin, bool) {
	s = p.res(s)
	if s.isLit() {
		v, err := strconv.Atoi(s.litValue())
		return linC(int64(v)), err == nil
	}
	// known link for the same text?
	for _, l := range p.links {
		if p.strEq(l.s, s).k == BTrue {
			return linV(l.v), true
		}
	}
	neg := false
	body := s
	// sign: only if the first byte can be a sign
	if s[0].atom == 0 {
		if s[0].lit[0] == '+' || s[0].lit[0] == '-' {
			neg = s[0].lit[0] == '-'
			body = nfCat(nfLit(s[0].lit[1:]), s[1:])
		}
	} else {
		a := p.atoms[s[0].atom]
		if a.cls.has('+') || a.cls.has('-') {
			// fork on the first byte being a sign
			lo, _ := p.interval(p.lenOf(s))
			if lo == 0 && p.branch("atoi-empty", bLin(p.lenOf(s), EQ0)) {
				return linC(0), false
			}
			b := p.byteAt(s, linC(0))
			_, rest := p.locate(s, linC(1))
			if b.atom != 0 {
				ba := p.atoms[b.atom]
				signs := setOf('+', '-')
				if !ba.cls.and(signs).empty() {
					if !p.containsFork("atoi-sign", ba, signs, &B{k: BInRe, a: NF{{atom: ba.id}}, re: reClassStar(ba.cls.minus(signs))}) {
						p.narrow(ba, signs)
						if ba.cls.has('-') && ba.cls.has('+') {
							if p.branch("atoi-minus", p.strEq(NF{{atom: ba.id}}, nfLit("-"))) {
								neg = true
							}
						} else {
							neg = ba.cls.has('-')
						}
						body = rest
					} else {
						p.narrow(ba, signs.not())
					}
				}
			} else if b.c == '+' || b.c == '-' {
				neg = b.c == '-'
				body = rest
			}
			s = p.res(s)
		}
	}
	body = p.res(body)
	digits := &B{k: BInRe, a: body, re: reDigits1}
	if sb := p.simpDigits(body); sb != nil {
		digits = sb
	}
	if !p.branch("atoi-digits", digits) {
		return linC(0), false
	}
	// narrow classes
	for _, sg := range p.res(body) {
		if sg.atom != 0 {
			p.narrow(p.atoms[sg.atom], setDigits)
		}
	}
	body = p.res(body)
	if body.isLit() {
		v, err := strconv.Atoi(body.litValue())
		if neg {
			v = -v
		}
		return linC(int64(v)), err == nil
	}
	_, hiLen := p.interval(p.lenOf(body))
	if hiLen > 18 {
		// range errors: assume at most 18 digits or fork
		if !p.branch("atoi-range", bLin(p.lenOf(body).addC(-18), LE0)) {
			p.overApprox = true
			// 19+ digits: may or may not overflow; treat as error path only when > 19 digits
			return linC(0), false
		}
		hiLen = 18
	}
	hi := int64(1)
	for i := int64(0); i < hiLen; i++ {
		hi *= 10
	}
	v := p.newIVar("atoi", 0, hi-1)
	canon := false
	if len(body) == 1 && body[0].atom != 0 && p.atoms[body[0].atom].canon {
		canon = true
	}
	p.links = append(p.links, atoiLink{v: v.id, s: body, canon: canon})
	if neg {
		return linV(v.id).scale(-1), true
	}
	return linV(v.id), true
}

var reDigits1 = func() *Re { r, _ := reFromGo(`[0-9]+`, true); return r }()
var reCanonDec = func() *Re { r, _ := reFromGo(`0|[1-9][0-9]*`, true); return r }()

// simpDigits decides "[0-9]+" membership from classes when possible.
func (p *Path) simpDigits(s NF) *B {
	lo, hi := p.interval(p.lenOf(s))
	if hi == 0 {
		return bFalse
	}
	all, none := true, false
	for _, sg := range s {
		if sg.atom == 0 {
			for i := 0; i < len(sg.lit); i++ {
				if sg.lit[i] < '0' || sg.lit[i] > '9' {
					none = true
				}
			}
		} else {
			a := p.atoms[sg.atom]
			if !a.cls.subsetOf(setDigits) {
				all = false
			}
			if a.cls.and(setDigits).empty() && p.alo(a) > 0 {
				none = true
			}
		}
	}
	if none {
		return bFalse
	}
	if all && lo >= 1 {
		return bTrue
	}
	return nil
}

// itoa implements strconv.Itoa / %d.
func (p *Path) itoa(l Lin) NF {
	l = p.resLin(l)
	if l.isConst() {
		return nfLit(strconv.FormatInt(l.c, 10))
	}
	if len(l.ts) == 1 && l.ts[0].k == 1 && l.c == 0 {
		if s, ok := p.canonLink(l.ts[0].v); ok {
			return s
		}
	}
	lo, hi := p.interval(l)
	if hi != posInf && lo != negInf && hi-lo <= int64(p.eng.cfg.maxIntSplit) {
		conds := make([]*B, 0, hi-lo+1)
		for k := lo; k <= hi; k++ {
			conds = append(conds, bLin(l.addC(-k), EQ0))
		}
		o := p.fork("itoa", conds)
		return nfLit(strconv.FormatInt(lo+int64(o), 10))
	}
	neg := false
	if lo < 0 {
		if hi < 0 || p.branch("itoa-neg", bLin(l, LT0)) {
			neg = true
			l = l.scale(-1)
		}
	}
	d := p.newAtom("itoa", setDigits, 1, 19)
	d.canon = true
	d.re = reCanonDec
	v := p.newIVar("itoaV", 0, posInf)
	p.assume(bLin(linV(v.id).sub(l), EQ0))
	p.links = append(p.links, atoiLink{v: v.id, s: NF{{atom: d.id}}, canon: true})
	if neg {
		return nfCat(nfLit("-"), NF{{atom: d.id}})
	}
	return NF{{atom: d.id}}
}
