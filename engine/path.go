package main

// Per-path symbolic state: atoms, integer variables, path condition, forks, feasibility, emission.

import (
	"fmt"
	"sort"
	"strconv"
	"strings"
	"sync/atomic"
	"time"

	"golang.org/x/tools/go/ssa"
)

// Seg is a literal byte run (atom == 0) or an atom reference.
type Seg struct {
	lit  string
	atom int
}

// NF is a string in normal form.
type NF []Seg

func nfLit(s string) NF {
	if s == "" {
		return NF{}
	}
	return NF{{lit: s}}
}

func (n NF) isLit() bool {
	for _, s := range n {
		if s.atom != 0 {
			return false
		}
	}
	return true
}

func (n NF) litValue() string {
	var sb strings.Builder
	for _, s := range n {
		sb.WriteString(s.lit)
	}
	return sb.String()
}

func nfCat(parts ...NF) NF {
	var out NF
	for _, p := range parts {
		for _, s := range p {
			if s.atom == 0 {
				if s.lit == "" {
					continue
				}
				if n := len(out); n > 0 && out[n-1].atom == 0 {
					out[n-1] = Seg{lit: out[n-1].lit + s.lit}
					continue
				}
			}
			out = append(out, s)
		}
	}
	if out == nil {
		out = NF{}
	}
	return out
}

type Atom struct {
	id    int
	name  string
	cls   ByteSet
	lenv  int // integer variable holding the length
	re    *Re
	excl  []string
	bound bool
	to    NF
	canon bool // canonical decimal (0|[1-9][0-9]*)
	input bool
}

type IVar struct {
	id     int
	name   string
	lo, hi int64
	atom   int  // atom whose length this is (0: none)
	bound  bool // substituted by `to`
	to     Lin
	def    func(r *renderer) string // defining SMT term for non-linear results
	eval   func(m *Model) int64     // concrete evaluation of the definition
	defLo, defHi int64              // interval at definition time (a refined interval carries information)
	deps   []int                    // ivars the definition mentions
	depsNF []NF
	input  bool
}

type atoiLink struct {
	v     int
	s     NF
	canon bool
}

type pathAbort struct {
	kind   string // "infeasible", "end", "panic", "unsupported", "unwind", "outside", "budget"
	detail string
}

type inputRec struct {
	name string
	kind byte // 's' string atom, 'i' integer var, 'c' choice
	atom int
	ivar int
	val  int // for choices
}

type obsRec struct {
	label string
	s     NF
	isInt bool
	i     Lin
}

type assertRec struct {
	label  string
	result string // "holds", "violated", "unknown"
	how    string // "syntactic" or solver name
}

type Path struct {
	eng       *Engine
	pf        *Portfolio
	h         *HarnessRun
	script    []int
	pos       int
	atoms     []*Atom
	ivars     []*IVar
	pc        []*B
	links     []atoiLink
	depAtom   map[int]bool
	depVar    map[int]bool
	inputs    []inputRec
	nameCount map[string]int
	observes  []obsRec
	asserts   []assertRec
	known     []string // active known-finding tags on this path
	overApprox bool
	maybeInfeasible bool
	steps     int64
	nQueries  int
	nSyntactic int
	reached   map[string]bool
	violations []*Violation
	mon       *Monitor
	funcsSeen map[string]int64
	heapID    int
	outside   []string
	globals   map[*ssa.Global]*Cell
	byteVars  map[int]int
	byteCells map[*Cell]byteCellRef
	params    map[string]int
	sched     *Sched
	notes     []string
	mapPerm   bool
	digests   map[string]NF // hash / hex models: same input, same output
	uuidDistinct bool // rt.DistinctUUIDs: draws of the random source are fixed pairwise distinct values
	unwind    int // loop bound stated by the harness (rt.Unwind), 0 = engine default
	selectChoice bool
	allocLimit int64
	uuidCalls int
	env       map[string]NF // process environment as set by rt.Setenv
	tokenSeq  int
	atomicVC  VC
	atomicVCFull VC
}

func newPath(eng *Engine, pf *Portfolio, h *HarnessRun, script []int) *Path {
	p := &Path{eng: eng, pf: pf, h: h, script: script,
		atoms: []*Atom{nil}, ivars: []*IVar{nil},
		depAtom: map[int]bool{}, depVar: map[int]bool{}, nameCount: map[string]int{},
		reached: map[string]bool{}, funcsSeen: map[string]int64{}, digests: map[string]NF{}}
	return p
}

func (p *Path) abort(kind, detail string) {
	panic(pathAbort{kind, detail})
}

func (p *Path) uniq(name string) string {
	k := p.nameCount[name]
	p.nameCount[name] = k + 1
	return name + "#" + strconv.Itoa(k)
}

// ---------------------------------------------------------------- variables

func (p *Path) newIVar(name string, lo, hi int64) *IVar {
	v := &IVar{id: len(p.ivars), name: name, lo: lo, hi: hi}
	p.ivars = append(p.ivars, v)
	return v
}

func (p *Path) newAtom(name string, cls ByteSet, lo, hi int64) *Atom {
	a := &Atom{id: len(p.atoms), name: name, cls: cls}
	p.atoms = append(p.atoms, a)
	if cls.empty() {
		hi = 0
	}
	v := p.newIVar("len("+name+")", lo, hi)
	v.atom = a.id
	a.lenv = v.id
	if lo > hi {
		p.abort("infeasible", "empty atom domain")
	}
	return a
}

func (p *Path) alo(a *Atom) int64 { return p.ivars[a.lenv].lo }
func (p *Path) ahi(a *Atom) int64 { return p.ivars[a.lenv].hi }

// ---------------------------------------------------------------- resolution

func (p *Path) resLin(l Lin) Lin {
	need := false
	for _, t := range l.ts {
		v := p.ivars[t.v]
		if v.bound || v.lo == v.hi {
			need = true
			break
		}
	}
	if !need {
		return l
	}
	out := linC(l.c)
	for _, t := range l.ts {
		v := p.ivars[t.v]
		switch {
		case v.bound:
			out = out.add(p.resLin(v.to).scale(t.k))
		case v.lo == v.hi:
			out = out.addC(v.lo * t.k)
		default:
			out = out.add(Lin{ts: []LinTerm{t}})
		}
	}
	return out
}

func (p *Path) res(n NF) NF {
	need := false
	for i, s := range n {
		if s.atom != 0 {
			a := p.atoms[s.atom]
			if a.bound || p.ahi(a) == 0 {
				need = true
				break
			}
		} else if s.lit == "" || (i > 0 && n[i-1].atom == 0) {
			need = true
			break
		}
	}
	if !need {
		return n
	}
	var out NF
	var rec func(n NF)
	rec = func(n NF) {
		for _, s := range n {
			if s.atom == 0 {
				if s.lit == "" {
					continue
				}
				if k := len(out); k > 0 && out[k-1].atom == 0 {
					out[k-1] = Seg{lit: out[k-1].lit + s.lit}
				} else {
					out = append(out, s)
				}
				continue
			}
			a := p.atoms[s.atom]
			if a.bound {
				rec(a.to)
			} else if p.ahi(a) == 0 {
				continue
			} else {
				out = append(out, s)
			}
		}
	}
	rec(n)
	if out == nil {
		out = NF{}
	}
	return out
}

func (p *Path) interval(l Lin) (int64, int64) {
	l = p.resLin(l)
	lo, hi := l.c, l.c
	for _, t := range l.ts {
		v := p.ivars[t.v]
		a, b := satMul(v.lo, t.k), satMul(v.hi, t.k)
		if a > b {
			a, b = b, a
		}
		lo, hi = satAdd(lo, a), satAdd(hi, b)
	}
	return lo, hi
}

func (p *Path) lenOf(n NF) Lin {
	out := linC(0)
	for _, s := range p.res(n) {
		if s.atom == 0 {
			out = out.addC(int64(len(s.lit)))
		} else {
			out = out.add(linV(p.atoms[s.atom].lenv))
		}
	}
	return p.resLin(out)
}

// ---------------------------------------------------------------- simplification

func (p *Path) canonLink(v int) (NF, bool) {
	for _, l := range p.links {
		if l.v == v && l.canon {
			return l.s, true
		}
	}
	return nil, false
}

// simp resolves a constraint against the current state and decides it when local facts suffice.
func (p *Path) simp(b *B) *B {
	switch b.k {
	case BTrue, BFalse:
		return b
	case BNot:
		return bNot(p.simp(b.xs[0]))
	case BAnd:
		xs := make([]*B, len(b.xs))
		for i, x := range b.xs {
			xs[i] = p.simp(x)
		}
		return bAnd(xs...)
	case BOr:
		xs := make([]*B, len(b.xs))
		for i, x := range b.xs {
			xs[i] = p.simp(x)
		}
		return bOr(xs...)
	case BLin:
		l := p.resLin(b.lin)
		if l.isConst() {
			return bLin(l, b.op)
		}
		// canonical-decimal rewrite: v == c  <=>  digits == "c"
		if !b.noRewrite && len(l.ts) == 1 && (l.ts[0].k == 1 || l.ts[0].k == -1) && (b.op == EQ0 || b.op == NE0) {
			if s, ok := p.canonLink(l.ts[0].v); ok {
				c := -l.c
				if l.ts[0].k == -1 {
					c = l.c
				}
				var e *B
				if c < 0 {
					e = bFalse
				} else {
					e = p.strEq(s, nfLit(strconv.FormatInt(c, 10)))
				}
				if b.op == NE0 {
					e = bNot(e)
				}
				// keep the integer fact too: under the interval abstraction the link between the
				// digits and the value is not part of the query
				if lo, hi := p.interval(l); (b.op == EQ0 && (lo > 0 || hi < 0)) || e.k == BFalse {
					return bFalse
				}
				if e.k == BTrue {
					return &B{k: BLin, lin: l, op: b.op}
				}
				return bAnd(&B{k: BLin, lin: l, op: b.op, noRewrite: true}, e)
			}
		}
		lo, hi := p.interval(l)
		switch b.op {
		case EQ0:
			if lo > 0 || hi < 0 {
				return bFalse
			}
			if lo == 0 && hi == 0 {
				return bTrue
			}
		case NE0:
			if lo > 0 || hi < 0 {
				return bTrue
			}
			if lo == 0 && hi == 0 {
				return bFalse
			}
		case LT0:
			if hi < 0 {
				return bTrue
			}
			if lo >= 0 {
				return bFalse
			}
		case LE0:
			if hi <= 0 {
				return bTrue
			}
			if lo > 0 {
				return bFalse
			}
		}
		return &B{k: BLin, lin: l, op: b.op, noRewrite: b.noRewrite}
	case BStrEq:
		return p.strEq(b.a, b.b)
	case BStrLt, BStrLe:
		a, c := p.stripCommon(p.res(b.a), p.res(b.b), false)
		if a.isLit() && c.isLit() {
			x, y := a.litValue(), c.litValue()
			if b.k == BStrLt {
				return bConst(x < y)
			}
			return bConst(x <= y)
		}
		if len(a) > 0 && len(c) > 0 && a[0].atom == 0 && c[0].atom == 0 && a[0].lit[0] != c[0].lit[0] {
			return bConst(a[0].lit[0] < c[0].lit[0])
		}
		if len(a) == 0 {
			// "" < c  iff c nonempty ; "" <= c always
			if b.k == BStrLe {
				return bTrue
			}
			return p.simp(bLin(p.lenOf(c).scale(-1), LT0))
		}
		if len(c) == 0 {
			// a < "" never ; a <= "" iff a empty
			if b.k == BStrLt {
				return bFalse
			}
			return p.simp(bLin(p.lenOf(a), EQ0))
		}
		return &B{k: b.k, a: a, b: c}
	case BInRe:
		s := p.res(b.a)
		if s.isLit() {
			return bConst(b.re.match(s.litValue()))
		}
		if cls, ok := reClassOf(b.re); ok {
			all := true
			for _, sg := range s {
				if sg.atom == 0 {
					for i := 0; i < len(sg.lit); i++ {
						if !cls.has(sg.lit[i]) {
							return bFalse
						}
					}
				} else {
					a := p.atoms[sg.atom]
					if !a.cls.subsetOf(cls) {
						all = false
						if p.alo(a) >= 1 && a.cls.and(cls).empty() {
							return bFalse
						}
					}
				}
			}
			if all {
				return bTrue
			}
		}
		return &B{k: BInRe, a: s, re: b.re}
	}
	return b
}

// stripCommon removes syntactically equal prefixes (and suffixes) of two resolved NFs.
func (p *Path) stripCommon(a, b NF, suffix bool) (NF, NF) {
	for len(a) > 0 && len(b) > 0 {
		x, y := a[0], b[0]
		if x.atom != 0 || y.atom != 0 {
			if x.atom == y.atom {
				a, b = a[1:], b[1:]
				continue
			}
			break
		}
		k := 0
		for k < len(x.lit) && k < len(y.lit) && x.lit[k] == y.lit[k] {
			k++
		}
		if k == 0 {
			break
		}
		a = nfCat(nfLit(x.lit[k:]), a[1:])
		b = nfCat(nfLit(y.lit[k:]), b[1:])
		if k < len(x.lit) && k < len(y.lit) {
			break
		}
	}
	if !suffix {
		return a, b
	}
	for len(a) > 0 && len(b) > 0 {
		x, y := a[len(a)-1], b[len(b)-1]
		if x.atom != 0 || y.atom != 0 {
			if x.atom == y.atom {
				a, b = a[:len(a)-1], b[:len(b)-1]
				continue
			}
			break
		}
		k := 0
		for k < len(x.lit) && k < len(y.lit) && x.lit[len(x.lit)-1-k] == y.lit[len(y.lit)-1-k] {
			k++
		}
		if k == 0 {
			break
		}
		a = nfCat(a[:len(a)-1], nfLit(x.lit[:len(x.lit)-k]))
		b = nfCat(b[:len(b)-1], nfLit(y.lit[:len(y.lit)-k]))
		if k < len(x.lit) && k < len(y.lit) {
			break
		}
	}
	return a, b
}

// strEq builds (and locally decides) the constraint a == b.
func (p *Path) strEq(a, b NF) *B {
	a, b = p.stripCommon(p.res(a), p.res(b), true)
	if len(a) == 0 && len(b) == 0 {
		return bTrue
	}
	// differing literal heads / tails
	if len(a) > 0 && len(b) > 0 {
		if a[0].atom == 0 && b[0].atom == 0 && a[0].lit[0] != b[0].lit[0] {
			return bFalse
		}
		x, y := a[len(a)-1], b[len(b)-1]
		if x.atom == 0 && y.atom == 0 && x.lit[len(x.lit)-1] != y.lit[len(y.lit)-1] {
			return bFalse
		}
	}
	if len(a) == 0 || len(b) == 0 {
		o := a
		if len(a) == 0 {
			o = b
		}
		for _, s := range o {
			if s.atom == 0 {
				return bFalse
			}
			if at := p.atoms[s.atom]; at.re != nil && !at.re.match("") {
				return bFalse // the atom's language does not contain the empty string
			}
		}
		return p.simp(bLin(p.lenOf(o), EQ0))
	}
	// length intervals
	alo, ahi := p.interval(p.lenOf(a))
	blo, bhi := p.interval(p.lenOf(b))
	if ahi < blo || bhi < alo {
		return bFalse
	}
	// literal vs class: a literal byte facing an atom that must cover it
	if a.isLit() || b.isLit() {
		lit, o := a, b
		if !a.isLit() {
			lit, o = b, a
		}
		s := lit.litValue()
		// every literal segment of o must occur in s in order; single atom: class check
		if len(o) == 1 && o[0].atom != 0 {
			at := p.atoms[o[0].atom]
			for i := 0; i < len(s); i++ {
				if !at.cls.has(s[i]) {
					return bFalse
				}
			}
			for _, e := range at.excl {
				if e == s {
					return bFalse
				}
			}
			if at.re != nil && !at.re.match(s) {
				return bFalse
			}
		} else {
			// prefix atom class check against first byte, leading literal already stripped
			if o[0].atom != 0 {
				at := p.atoms[o[0].atom]
				if p.alo(at) >= 1 && !at.cls.has(s[0]) {
					return bFalse
				}
			}
			if l := o[len(o)-1]; l.atom != 0 {
				at := p.atoms[l.atom]
				if p.alo(at) >= 1 && !at.cls.has(s[len(s)-1]) {
					return bFalse
				}
			}
			// all atoms of o must have classes; literal pieces of o must appear in s in order
			pos := 0
			for _, sg := range o {
				if sg.atom == 0 {
					j := strings.Index(s[pos:], sg.lit)
					if j < 0 {
						return bFalse
					}
					pos += j + len(sg.lit)
				}
			}
		}
	}
	return &B{k: BStrEq, a: a, b: b}
}

// ---------------------------------------------------------------- assume (with refinement)

func (p *Path) collectVars(b *B, atoms map[int]bool, vars map[int]bool) {
	switch b.k {
	case BLin:
		for _, t := range p.resLin(b.lin).ts {
			p.markVar(t.v, atoms, vars)
		}
	case BStrEq, BStrLt, BStrLe, BInRe:
		for _, s := range p.res(b.a) {
			if s.atom != 0 {
				atoms[s.atom] = true
			}
		}
		for _, s := range p.res(b.b) {
			if s.atom != 0 {
				atoms[s.atom] = true
			}
		}
	case BNot, BAnd, BOr:
		for _, x := range b.xs {
			p.collectVars(x, atoms, vars)
		}
	}
}

func (p *Path) markVar(v int, atoms map[int]bool, vars map[int]bool) {
	iv := p.ivars[v]
	if iv.atom != 0 {
		atoms[iv.atom] = true
		vars[v] = true
		return
	}
	if vars[v] {
		return
	}
	vars[v] = true
	for _, d := range iv.deps {
		for _, t := range p.resLin(linV(d)).ts {
			p.markVar(t.v, atoms, vars)
		}
	}
	for _, n := range iv.depsNF {
		for _, s := range p.res(n) {
			if s.atom != 0 {
				atoms[s.atom] = true
			}
		}
	}
}

func (p *Path) pushPC(b *B) {
	p.pc = append(p.pc, b)
	atoms, vars := map[int]bool{}, map[int]bool{}
	p.collectVars(b, atoms, vars)
	strK := b.k != BLin
	for a := range atoms {
		if strK {
			p.depAtom[a] = true
		}
	}
	for v := range vars {
		p.depVar[v] = true
	}
	if b.k == BLin {
		for a := range atoms {
			p.depVar[p.atoms[a].lenv] = true
		}
	}
}

// assume adds a constraint that is known (or has been checked) to be feasible.
func (p *Path) assume(b *B) {
	b = p.simp(b)
	switch b.k {
	case BTrue:
		return
	case BFalse:
		p.abort("infeasible", "assumed false")
	case BAnd:
		for _, x := range b.xs {
			p.assume(x)
		}
		return
	case BLin:
		l := b.lin
		if len(l.ts) == 1 && (l.ts[0].k == 1 || l.ts[0].k == -1) {
			v := p.ivars[l.ts[0].v]
			k := l.ts[0].k
			// k*v + c op 0
			switch b.op {
			case EQ0:
				val := -l.c * k
				if val < v.lo || val > v.hi {
					p.abort("infeasible", "eq outside interval")
				}
				v.lo, v.hi = val, val
				return
			case LE0, LT0:
				c := l.c
				if b.op == LT0 {
					c++ // k*v + c < 0  <=> k*v + c + 1 <= 0
				}
				if k == 1 { // v <= -c
					if -c < v.hi {
						v.hi = -c
					}
				} else { // -v + c <= 0 => v >= c
					if c > v.lo {
						v.lo = c
					}
				}
				if v.lo > v.hi {
					p.abort("infeasible", "empty interval")
				}
				return
			case NE0:
				val := -l.c * k
				if val == v.lo && val == v.hi {
					p.abort("infeasible", "ne on fixed")
				}
				if val == v.lo {
					v.lo++
					return
				}
				if val == v.hi {
					v.hi--
					return
				}
				if val < v.lo || val > v.hi {
					return
				}
			}
		}
		p.pushPC(b)
		return
	case BStrEq:
		if p.tryBind(b.a, b.b) || p.tryBind(b.b, b.a) {
			return
		}
		p.pushPC(b)
		// equal strings have equal lengths: helps interval reasoning
		return
	case BNot:
		x := b.xs[0]
		if x.k == BStrEq {
			a, c := x.a, x.b
			if c.isLit() && len(a) == 1 && a[0].atom != 0 {
				p.atoms[a[0].atom].excl = append(p.atoms[a[0].atom].excl, c.litValue())
				return
			}
			if a.isLit() && len(c) == 1 && c[0].atom != 0 {
				p.atoms[c[0].atom].excl = append(p.atoms[c[0].atom].excl, a.litValue())
				return
			}
		}
		p.pushPC(b)
		return
	case BInRe:
		if cls, ok := reClassOf(b.re); ok {
			// s in cls*: narrow every atom of s
			for _, sg := range b.a {
				if sg.atom != 0 {
					a := p.atoms[sg.atom]
					nc := a.cls.and(cls)
					if nc != a.cls {
						a.cls = nc
						if nc.empty() {
							p.assume(bLin(linV(a.lenv), EQ0))
						}
					}
				}
			}
			return
		}
		p.pushPC(b)
		return
	}
	p.pushPC(b)
}

// tryBind handles A == t for a single unbound atom A not occurring in t.
func (p *Path) tryBind(a, t NF) bool {
	if len(a) != 1 || a[0].atom == 0 {
		return false
	}
	at := p.atoms[a[0].atom]
	for _, s := range t {
		if s.atom == at.id {
			return false
		}
	}
	// class restrictions
	for _, s := range t {
		if s.atom == 0 {
			for i := 0; i < len(s.lit); i++ {
				if !at.cls.has(s.lit[i]) {
					p.abort("infeasible", "bind outside class")
				}
			}
		} else {
			o := p.atoms[s.atom]
			nc := o.cls.and(at.cls)
			if nc != o.cls {
				o.cls = nc
				if nc.empty() {
					p.assume(bLin(linV(o.lenv), EQ0))
				}
			}
		}
	}
	lo, hi := p.alo(at), p.ahi(at)
	wasDep := p.depAtom[at.id]
	re, excl := at.re, at.excl
	lenT := p.lenOf(t)
	at.bound, at.to = true, t
	lv := p.ivars[at.lenv]
	lv.bound, lv.to = true, lenT
	if wasDep {
		for _, s := range t {
			if s.atom != 0 {
				p.depAtom[s.atom] = true
			}
		}
	}
	p.assume(bLin(lenT.addC(-hi), LE0))
	p.assume(bLin(linC(lo).sub(lenT), LE0))
	if re != nil {
		p.assume(&B{k: BInRe, a: t, re: re})
	}
	for _, e := range excl {
		p.assume(bNot(p.strEq(t, nfLit(e))))
	}
	if at.canon {
		// the replacement keeps canonical form by construction of equality
	}
	return true
}

// ---------------------------------------------------------------- feasibility and forks

// indep reports whether the atom's content is not mentioned by any string constraint.
func (p *Path) indepContent(a *Atom) bool { return !p.depAtom[a.id] && a.re == nil }
func (p *Path) indepLen(a *Atom) bool     { return !p.depVar[a.lenv] }

// feasible decides whether pc && c is satisfiable.
func (p *Path) feasible(c *B) Tri {
	c = p.simp(c)
	switch c.k {
	case BTrue:
		return Sat
	case BFalse:
		return Unsat
	}
	if r, ok := p.localFeasible(c); ok {
		p.nSyntactic++
		atomic.AddInt64(&p.eng.stats.syntactic, 1)
		return r
	}
	r, _, _ := p.check([]*B{c}, true, false, false, false)
	return r
}

// localFeasible decides feasibility of constraints over independent atoms / variables.
func (p *Path) localFeasible(c *B) (Tri, bool) {
	switch c.k {
	case BLin:
		if len(c.lin.ts) == 1 && !p.depVar[c.lin.ts[0].v] && p.ivars[c.lin.ts[0].v].def == nil {
			v := p.ivars[c.lin.ts[0].v]
			if v.atom != 0 && (p.depAtom[v.atom] || p.atoms[v.atom].re != nil || len(p.atoms[v.atom].excl) > 0) {
				return Unknown, false
			}
			if _, linked := p.linkOf(v.id); linked {
				return Unknown, false
			}
			k, cc := c.lin.ts[0].k, c.lin.c
			// exists v in [lo,hi] with k*v+cc op 0 ?  evaluate at the ends and use monotonicity
			f := func(x int64) int64 { return satAdd(satMul(k, x), cc) }
			a, b := f(v.lo), f(v.hi)
			if a > b {
				a, b = b, a
			}
			switch c.op {
			case EQ0:
				if a <= 0 && b >= 0 && (k == 1 || k == -1 || (-cc)%k == 0) {
					return Sat, true
				}
				return Unsat, true
			case NE0:
				if a == 0 && b == 0 {
					return Unsat, true
				}
				return Sat, true
			case LT0:
				if a < 0 {
					return Sat, true
				}
				return Unsat, true
			case LE0:
				if a <= 0 {
					return Sat, true
				}
				return Unsat, true
			}
		}
	case BStrEq:
		a, t := c.a, c.b
		if !(len(a) == 1 && a[0].atom != 0) {
			a, t = t, a
		}
		if len(a) == 1 && a[0].atom != 0 && t.isLit() {
			at := p.atoms[a[0].atom]
			if p.indepContent(at) && p.indepLen(at) {
				// simp already checked class/excl/re; check length
				n := int64(len(t.litValue()))
				if n >= p.alo(at) && n <= p.ahi(at) {
					return Sat, true
				}
				return Unsat, true
			}
		}
	case BNot:
		x := c.xs[0]
		if x.k == BStrEq {
			a, t := x.a, x.b
			if !(len(a) == 1 && a[0].atom != 0) {
				a, t = t, a
			}
			if len(a) == 1 && a[0].atom != 0 && t.isLit() {
				at := p.atoms[a[0].atom]
				if p.indepContent(at) && p.indepLen(at) && p.ahi(at) >= 1 && at.cls.count() >= 2 && at.cls.count() > len(at.excl)+1 {
					return Sat, true
				}
			}
		}
	}
	return Unknown, false
}

func (p *Path) linkOf(v int) (atoiLink, bool) {
	for _, l := range p.links {
		if l.v == v {
			return l, true
		}
	}
	return atoiLink{}, false
}

// fork takes an exhaustive case split. conds[i] is the side condition of outcome i; a nil
// condition means "known to be feasible, nothing to assume". Non-nil conditions are assumed
// mutually exclusive. Returns the outcome followed on this path; alternatives are queued.
func (p *Path) fork(label string, conds []*B) int {
	hasNil := false
	for i := range conds {
		if conds[i] == nil {
			hasNil = true
			continue
		}
		conds[i] = p.simp(conds[i])
	}
	nf, last := 0, -1
	for i, c := range conds {
		if c != nil && c.k == BTrue && !hasNil {
			return i
		}
		if c == nil || c.k != BFalse {
			nf++
			last = i
		}
	}
	if nf == 0 {
		p.abort("infeasible", "no outcome at "+label)
	}
	take := func(o int) int {
		if conds[o] != nil {
			p.assume(conds[o])
		}
		return o
	}
	if nf == 1 {
		return take(last)
	}
	if p.pos < len(p.script) {
		o := p.script[p.pos]
		p.pos++
		if o >= len(conds) || (conds[o] != nil && conds[o].k == BFalse) {
			p.abort("infeasible", fmt.Sprintf("script outcome %d impossible at %s", o, label))
		}
		return take(o)
	}
	var feas []int
	unknownSeen := false
	for i, c := range conds {
		if c == nil {
			feas = append(feas, i)
			continue
		}
		if c.k == BFalse {
			continue
		}
		if len(feas) == 0 && i == last && !unknownSeen {
			feas = append(feas, i) // all others infeasible: this one must be feasible
			break
		}
		switch p.feasible(c) {
		case Sat:
			feas = append(feas, i)
		case Unknown:
			feas = append(feas, i)
			unknownSeen = true
			p.maybeInfeasible = true
			atomic.AddInt64(&p.eng.stats.unknownFeas, 1)
		}
	}
	if len(feas) == 0 {
		p.abort("infeasible", "no feasible outcome at "+label)
	}
	for _, o := range feas[1:] {
		alt := make([]int, len(p.script)+1)
		copy(alt, p.script)
		alt[len(p.script)] = o
		p.h.push(alt)
	}
	p.script = append(p.script, feas[0])
	p.pos++
	atomic.AddInt64(&p.eng.stats.decisions, 1)
	return take(feas[0])
}

// choice is an unconditional n-way fork (skeleton choices).
func (p *Path) choice(label string, n int) int {
	if n <= 1 {
		return 0
	}
	if p.pos < len(p.script) {
		o := p.script[p.pos]
		p.pos++
		return o
	}
	for o := 1; o < n; o++ {
		alt := make([]int, len(p.script)+1)
		copy(alt, p.script)
		alt[len(p.script)] = o
		p.h.push(alt)
	}
	p.script = append(p.script, 0)
	p.pos++
	atomic.AddInt64(&p.eng.stats.decisions, 1)
	return 0
}

// branch forks on a boolean condition and returns the side taken.
func (p *Path) branch(label string, c *B) bool {
	c = p.simp(c)
	if c.k == BTrue {
		return true
	}
	if c.k == BFalse {
		return false
	}
	return p.fork(label, []*B{c, bNot(c)}) == 0
}

// ---------------------------------------------------------------- emission

type renderer struct {
	p     *Path
	atoms map[int]bool // atoms used as strings
	lens  map[int]bool // atoms whose length is used
	vars  map[int]bool
}

func (r *renderer) nf(n NF) string {
	n = r.p.res(n)
	if len(n) == 0 {
		return "\"\""
	}
	parts := make([]string, len(n))
	for i, s := range n {
		if s.atom == 0 {
			parts[i] = smtLit(s.lit)
		} else {
			r.atoms[s.atom] = true
			parts[i] = "a" + strconv.Itoa(s.atom)
		}
	}
	if len(parts) == 1 {
		return parts[0]
	}
	return "(str.++ " + strings.Join(parts, " ") + ")"
}

func (r *renderer) lin(l Lin) string {
	l = r.p.resLin(l)
	if l.isConst() {
		return smtInt(l.c)
	}
	parts := []string{}
	if l.c != 0 {
		parts = append(parts, smtInt(l.c))
	}
	for _, t := range l.ts {
		v := r.p.ivars[t.v]
		var name string
		if v.atom != 0 {
			r.lens[v.atom] = true
			name = "l" + strconv.Itoa(v.atom)
		} else {
			r.vars[t.v] = true
			name = "v" + strconv.Itoa(t.v)
		}
		if t.k == 1 {
			parts = append(parts, name)
		} else {
			parts = append(parts, "(* "+smtInt(t.k)+" "+name+")")
		}
	}
	if len(parts) == 1 {
		return parts[0]
	}
	return "(+ " + strings.Join(parts, " ") + ")"
}

func (r *renderer) b(b *B) string {
	switch b.k {
	case BTrue:
		return "true"
	case BFalse:
		return "false"
	case BLin:
		op := [...]string{"=", "distinct", "<", "<="}[b.op]
		return "(" + op + " " + r.lin(b.lin) + " 0)"
	case BStrEq:
		return "(= " + r.nf(b.a) + " " + r.nf(b.b) + ")"
	case BStrLt:
		return "(str.< " + r.nf(b.a) + " " + r.nf(b.b) + ")"
	case BStrLe:
		return "(str.<= " + r.nf(b.a) + " " + r.nf(b.b) + ")"
	case BInRe:
		return "(str.in_re " + r.nf(b.a) + " " + b.re.smt + ")"
	case BNot:
		return "(not " + r.b(b.xs[0]) + ")"
	case BAnd, BOr:
		parts := make([]string, len(b.xs))
		for i, x := range b.xs {
			parts[i] = r.b(x)
		}
		op := "and"
		if b.k == BOr {
			op = "or"
		}
		return "(" + op + " " + strings.Join(parts, " ") + ")"
	}
	return "true"
}

// conRec is a constraint with the variables it mentions.
type conRec struct {
	b     *B
	atoms map[int]bool
	vars  map[int]bool
}

func (p *Path) mkCon(b *B) conRec {
	c := conRec{b: b, atoms: map[int]bool{}, vars: map[int]bool{}}
	p.collectVars(b, c.atoms, c.vars)
	return c
}

type linkRec struct {
	l     atoiLink
	atoms map[int]bool
}

func (p *Path) linkRecs() []linkRec {
	var lks []linkRec
	for _, l := range p.links {
		k := linkRec{l: l, atoms: map[int]bool{}}
		for _, s := range p.res(l.s) {
			if s.atom != 0 {
				k.atoms[s.atom] = true
			}
		}
		lks = append(lks, k)
	}
	return lks
}

// check decides satisfiability of pc && extra. slice: cone of influence of extra only.
// exact: emit exact string<->integer links. model: return a model of all live variables.
func (p *Path) check(extra []*B, slice, exact, model, important bool) (Tri, map[string]string, string) {
	var cons, ex []conRec
	for _, b := range p.pc {
		s := p.simp(b)
		if s.k == BTrue {
			continue
		}
		if s.k == BFalse {
			return Unsat, nil, "syntactic"
		}
		cons = append(cons, p.mkCon(s))
	}
	for _, b := range extra {
		s := p.simp(b)
		if s.k == BTrue {
			continue
		}
		if s.k == BFalse {
			return Unsat, nil, "syntactic"
		}
		ex = append(ex, p.mkCon(s))
	}
	lks := p.linkRecs()
	if !slice {
		if model {
			return p.solveComponents(append(cons, ex...), lks, exact, important)
		}
		return p.renderSolve(append(cons, ex...), lks, nil, nil, exact, false, important)
	}
	selAtoms, selVars := map[int]bool{}, map[int]bool{}
	for _, c := range ex {
		for a := range c.atoms {
			selAtoms[a] = true
		}
		for v := range c.vars {
			selVars[v] = true
		}
	}
	sel, selL := p.closure(cons, lks, selAtoms, selVars)
	defVars := map[int]bool{}
	for v := range selVars {
		if p.ivars[v].def != nil && !p.ivars[v].bound {
			defVars[v] = true // a refined interval of a defined variable carries information
		}
	}
	return p.renderSolve(append(sel, ex...), selL, nil, defVars, exact, model, important)
}

// closure selects the constraints and links transitively connected with the given variables.
func (p *Path) closure(cons []conRec, lks []linkRec, selAtoms, selVars map[int]bool) ([]conRec, []linkRec) {
	use := make([]bool, len(cons))
	useLk := make([]bool, len(lks))
	hitSets := func(atoms, vars map[int]bool) bool {
		for a := range atoms {
			if selAtoms[a] {
				return true
			}
		}
		for v := range vars {
			if selVars[v] {
				return true
			}
		}
		return false
	}
	addSets := func(atoms, vars map[int]bool) {
		for a := range atoms {
			selAtoms[a] = true
		}
		for v := range vars {
			selVars[v] = true
		}
	}
	type defRec struct {
		id    int
		atoms map[int]bool
		vars  map[int]bool
	}
	var defs []defRec
	for _, dv := range p.ivars[1:] {
		if dv.def == nil || dv.bound {
			continue
		}
		d := defRec{id: dv.id, atoms: map[int]bool{}, vars: map[int]bool{}}
		p.markVar(dv.id, d.atoms, d.vars)
		defs = append(defs, d)
	}
	useDef := make([]bool, len(defs))
	for changed := true; changed; {
		changed = false
		for i, c := range cons {
			if !use[i] && hitSets(c.atoms, c.vars) {
				use[i] = true
				changed = true
				addSets(c.atoms, c.vars)
			}
		}
		for i, d := range defs {
			if !useDef[i] && hitSets(d.atoms, d.vars) {
				useDef[i] = true
				changed = true
				addSets(d.atoms, d.vars)
			}
		}
		for i, k := range lks {
			if useLk[i] {
				continue
			}
			if selVars[k.l.v] || hitSets(k.atoms, nil) {
				useLk[i] = true
				changed = true
				selVars[k.l.v] = true
				addSets(k.atoms, nil)
			}
		}
	}
	var sel []conRec
	for i, c := range cons {
		if use[i] {
			sel = append(sel, c)
		}
	}
	var selL []linkRec
	for i, k := range lks {
		if useLk[i] {
			selL = append(selL, k)
		}
	}
	return sel, selL
}

// solveComponents finds a model of all constraints by solving each connected component on its
// own (independent components have independent models) and merging the results.
func (p *Path) solveComponents(cons []conRec, lks []linkRec, exact, important bool) (Tri, map[string]string, string) {
	merged := map[string]string{}
	done := make([]bool, len(cons))
	coveredA, coveredV := map[int]bool{}, map[int]bool{}
	hows := ""
	solveFrom := func(atoms, vars map[int]bool) (Tri, string) {
		selA, selV := map[int]bool{}, map[int]bool{}
		for a := range atoms {
			selA[a] = true
		}
		for v := range vars {
			selV[v] = true
		}
		var rest []conRec
		var idx []int
		for i, c := range cons {
			if !done[i] {
				rest = append(rest, c)
				idx = append(idx, i)
			}
		}
		sel, selL := p.closure(rest, lks, selA, selV)
		for _, c := range sel {
			for j, r := range rest {
				if r.b == c.b {
					done[idx[j]] = true
				}
			}
		}
		r, m, how := p.renderSolve(sel, selL, selA, selV, exact, true, important)
		if r != Sat {
			return r, how
		}
		for k, v := range m {
			merged[k] = v
		}
		for a := range selA {
			coveredA[a] = true
		}
		for v := range selV {
			coveredV[v] = true
		}
		return Sat, how
	}
	for i, c := range cons {
		if done[i] {
			continue
		}
		r, how := solveFrom(c.atoms, c.vars)
		if r != Sat {
			return r, nil, how
		}
		if hows == "" || how != "witness-guess" {
			hows = how
		}
	}
	// variables no constraint mentions: any value of their own domain
	for _, a := range p.atoms[1:] {
		if !a.bound && p.ahi(a) > 0 && !coveredA[a.id] {
			if r, how := solveFrom(map[int]bool{a.id: true}, nil); r != Sat {
				return r, nil, how
			}
		}
	}
	for _, v := range p.ivars[1:] {
		if !v.bound && v.atom == 0 && !coveredV[v.id] {
			if r, how := solveFrom(nil, map[int]bool{v.id: true}); r != Sat {
				return r, nil, how
			}
		}
	}
	if hows == "" {
		hows = "witness-guess"
	}
	return Sat, merged, hows
}

// renderSolve emits the given constraints (plus declarations, definitions and links) and
// decides them: concrete witness guess first, then the solver portfolio.
func (p *Path) renderSolve(cons []conRec, lks []linkRec, needAtoms, needVars map[int]bool, exact, model, important bool) (Tri, map[string]string, string) {
	r := &renderer{p: p, atoms: map[int]bool{}, lens: map[int]bool{}, vars: map[int]bool{}}
	var asserts []string
	for _, c := range cons {
		asserts = append(asserts, r.b(c.b))
	}
	for _, k := range lks {
		r.vars[k.l.v] = true
		if exact {
			asserts = append(asserts, "(= v"+strconv.Itoa(k.l.v)+" (str.to_int "+r.nf(k.l.s)+"))")
		} else {
			r.nf(k.l.s) // declare atoms
		}
	}
	for a := range needAtoms {
		at := p.atoms[a]
		if at.bound || p.ahi(at) == 0 {
			continue
		}
		if _, single := at.cls.single(); single && at.re == nil && len(at.excl) == 0 {
			r.lens[a] = true // content is determined by the length
		} else {
			r.atoms[a] = true
		}
	}
	for v := range needVars {
		iv := p.ivars[v]
		if iv.bound {
			continue
		}
		if iv.atom != 0 {
			if at := p.atoms[iv.atom]; at.re != nil && !at.canon && !at.bound {
				r.atoms[iv.atom] = true // a regular language restricts the possible lengths
			} else {
				r.lens[iv.atom] = true
			}
		} else {
			r.vars[v] = true
		}
	}
	// definitions of non-linear variables (may pull in more variables)
	var defs []string
	doneDef := map[int]bool{}
	for changed := true; changed; {
		changed = false
		ids := make([]int, 0, len(r.vars))
		for v := range r.vars {
			ids = append(ids, v)
		}
		sort.Ints(ids)
		for _, v := range ids {
			iv := p.ivars[v]
			if iv.def != nil && !doneDef[v] {
				doneDef[v] = true
				defs = append(defs, "(= v"+strconv.Itoa(v)+" "+iv.def(r)+")")
				changed = true
			}
		}
	}
	var sb strings.Builder
	for a := range r.atoms {
		r.lens[a] = true
	}
	aids := make([]int, 0, len(r.lens))
	for a := range r.lens {
		aids = append(aids, a)
	}
	sort.Ints(aids)
	var names []string
	for _, id := range aids {
		a := p.atoms[id]
		ln := "l" + strconv.Itoa(id)
		names = append(names, ln)
		lv := p.ivars[a.lenv]
		fmt.Fprintf(&sb, "(declare-const %s Int)\n", ln)
		if lv.lo == lv.hi {
			fmt.Fprintf(&sb, "(assert (= %s %d))\n", ln, lv.lo)
		} else {
			fmt.Fprintf(&sb, "(assert (>= %s %d))\n", ln, lv.lo)
			if lv.hi != posInf {
				fmt.Fprintf(&sb, "(assert (<= %s %d))\n", ln, lv.hi)
			}
		}
		if !r.atoms[id] {
			continue
		}
		n := "a" + strconv.Itoa(id)
		names = append(names, n)
		fmt.Fprintf(&sb, "(declare-const %s String)\n(assert (str.in_re %s (re.* %s)))\n(assert (= %s (str.len %s)))\n", n, n, smtClass(a.cls), ln, n)
		if a.re != nil {
			fmt.Fprintf(&sb, "(assert (str.in_re %s %s))\n", n, a.re.smt)
		}
		for _, e := range a.excl {
			fmt.Fprintf(&sb, "(assert (not (= %s %s)))\n", n, smtLit(e))
		}
	}
	vids := make([]int, 0, len(r.vars))
	for v := range r.vars {
		vids = append(vids, v)
	}
	sort.Ints(vids)
	for _, id := range vids {
		v := p.ivars[id]
		n := "v" + strconv.Itoa(id)
		names = append(names, n)
		fmt.Fprintf(&sb, "(declare-const %s Int)\n", n)
		if v.lo != negInf {
			fmt.Fprintf(&sb, "(assert (>= %s %s))\n", n, smtInt(v.lo))
		}
		if v.hi != posInf {
			fmt.Fprintf(&sb, "(assert (<= %s %s))\n", n, smtInt(v.hi))
		}
	}
	for _, d := range defs {
		sb.WriteString("(assert " + d + ")\n")
	}
	for _, a := range asserts {
		sb.WriteString("(assert " + a + ")\n")
	}
	if len(asserts) == 0 && len(defs) == 0 && !model {
		return Sat, nil, "syntactic"
	}
	var want []string
	if model {
		want = names
	}
	if p.eng.cfg.guessTries > 0 {
		if _, cached := queryCache.Load(sb.String()); !cached || model {
			gc := make([]*B, len(cons))
			for i, c := range cons {
				gc[i] = c.b
			}
			if gm := p.tryGuess(gc, aids, vids, sb.String()); gm != nil {
				atomic.AddInt64(&p.eng.stats.guessed, 1)
				if !model {
					queryCache.Store(sb.String(), Sat)
				}
				return Sat, gm, "witness-guess"
			}
		}
	}
	p.nQueries++
	atomic.AddInt64(&p.eng.stats.smtQueries, 1)
	tq := time.Now()
	res, m, how := p.pf.solve(sb.String(), want, important)
	if d := time.Since(tq); d > 300*time.Millisecond && p.eng.cfg.verbose {
		fmt.Fprintf(p.eng.logw, ";; SLOW query %.2fs (%v via %s, model=%v)\n%s\n", d.Seconds(), res, how, model, sb.String())
	}
	if p.eng.cfg.dumpQueries {
		fmt.Fprintf(p.eng.logw, ";; ---- query (%v via %s)\n%s\n", res, how, sb.String())
	}
	return res, m, how
}

// ---------------------------------------------------------------- model evaluation

type Model struct {
	p *Path
	m map[string]string
}

func (m *Model) atomVal(id int) string {
	a := m.p.atoms[id]
	if a.bound {
		return m.nf(a.to)
	}
	if v, ok := m.m["a"+strconv.Itoa(id)]; ok && len(v) > 0 {
		return v[1:]
	}
	if c, single := a.cls.single(); single {
		if v, ok := m.m["l"+strconv.Itoa(id)]; ok && len(v) > 1 {
			n, _ := strconv.Atoi(v[1:])
			if n > 1<<24 {
				m.p.abort("unsupported", "model value of more than 16 MiB")
			}
			return strings.Repeat(string([]byte{c}), n)
		}
	}
	// not in the model: any value of the class with minimal length
	b, _ := a.cls.first()
	return strings.Repeat(string([]byte{b}), int(m.p.alo(a)))
}

func (m *Model) nf(n NF) string {
	var sb strings.Builder
	for _, s := range n {
		if s.atom == 0 {
			sb.WriteString(s.lit)
		} else {
			sb.WriteString(m.atomVal(s.atom))
		}
	}
	return sb.String()
}

func (m *Model) ivar(id int) int64 {
	v := m.p.ivars[id]
	if v.bound {
		return m.lin(v.to)
	}
	if v.atom != 0 {
		return int64(len(m.atomVal(v.atom)))
	}
	if s, ok := m.m["v"+strconv.Itoa(id)]; ok && len(s) > 1 {
		x, _ := strconv.ParseInt(s[1:], 10, 64)
		return x
	}
	return v.lo
}

func (m *Model) lin(l Lin) int64 {
	x := l.c
	for _, t := range l.ts {
		x += t.k * m.ivar(t.v)
	}
	return x
}
