package main

// symgo — bounded symbolic execution of /repo's go/ssa, decided by SMT.
//
//   symgo check <property> [--tier quick|thorough] [--only Harness] [-v] [--dump-queries]
//   symgo replay <file>
//   symgo run <HarnessFunc> [k=v ...]          (development)

import (
	"encoding/json"
	"fmt"
	"os"
	"path/filepath"
	"runtime"
	"runtime/pprof"
	"sort"
	"strconv"
	"strings"
	"sync"
	"sync/atomic"
	"time"
)

type HarnessDef struct {
	Func      string         `json:"func"`
	Quick     map[string]int `json:"quick"`
	ThoroughOnly bool        `json:"thorough_only,omitempty"`
	Thorough  map[string]int `json:"thorough"`
	NoWitness bool           `json:"no_witness,omitempty"`
	Reach     []string       `json:"reach,omitempty"` // labels that must be reached by some path
	About     string         `json:"about,omitempty"`
}

type PropDef struct {
	Harnesses   []HarnessDef `json:"harnesses"`
	Bounds      []string     `json:"bounds"`
	Assumptions []string     `json:"assumptions"`
	Outside     []string     `json:"outside"`
}

type HarnessSpec struct {
	Property  string
	Func      string
	Params    map[string]int
	NoWitness bool
	Reach     []string
}

type knownEntry struct {
	status   string // open | fixed
	property string
	tag      string
	text     string
}

func loadKnown(verif string) []knownEntry {
	b, err := os.ReadFile(filepath.Join(verif, "KNOWN_FINDINGS.txt"))
	if err != nil {
		return nil
	}
	var out []knownEntry
	for _, ln := range strings.Split(string(b), "\n") {
		ln = strings.TrimSpace(ln)
		if ln == "" || strings.HasPrefix(ln, "#") {
			continue
		}
		i := strings.IndexByte(ln, ':')
		if i < 0 {
			continue
		}
		e := knownEntry{status: ln[:i]}
		rest := strings.Fields(ln[i+1:])
		var txt []string
		for _, f := range rest {
			switch {
			case strings.HasPrefix(f, "property=") && e.property == "":
				e.property = strings.TrimPrefix(f, "property=")
			case strings.HasPrefix(f, "tag=") && e.tag == "":
				e.tag = strings.TrimPrefix(f, "tag=")
			default:
				txt = append(txt, f)
			}
		}
		e.text = strings.Join(txt, " ")
		out = append(out, e)
	}
	return out
}

func main() {
	if len(os.Args) < 2 {
		fmt.Fprintln(os.Stderr, "usage: symgo check <property> [--tier quick|thorough] | replay <file> | run <Harness> [k=v...]")
		os.Exit(2)
	}
	verif := os.Getenv("VERIF_DIR")
	if verif == "" {
		exe, _ := os.Executable()
		verif = filepath.Dir(filepath.Dir(exe))
	}
	repo := os.Getenv("VERIF_REPO")
	if repo == "" {
		repo = "/repo"
	}
	cfg := &Config{repoDir: repo, verifDir: verif, tier: "quick", workers: runtime.NumCPU(), unwind: 24, maxDepth: 80,
		maxSteps: 4000000, maxPieces: 12, maxIntSplit: 24, maxPaths: 400000, capFast: 2000, capFastImportant: 4000, capSlow: 20000,
		witnessMax: 400, guessTries: 48}
	if t := os.Getenv("VERIF_TIER"); t == "quick" || t == "thorough" {
		cfg.tier = t
	}
	if s := os.Getenv("VERIF_SEED"); s != "" {
		cfg.seed, _ = strconv.ParseInt(s, 10, 64)
	}
	var pos []string
	only := ""
	for i := 2; i < len(os.Args); i++ {
		a := os.Args[i]
		switch {
		case a == "--tier" && i+1 < len(os.Args):
			cfg.tier = os.Args[i+1]
			i++
		case strings.HasPrefix(a, "--tier="):
			cfg.tier = strings.TrimPrefix(a, "--tier=")
		case a == "--only" && i+1 < len(os.Args):
			only = os.Args[i+1]
			i++
		case a == "-v":
			cfg.verbose = true
		case a == "--dump-queries":
			cfg.dumpQueries = true
		case a == "--cpuprofile" && i+1 < len(os.Args):
			f, _ := os.Create(os.Args[i+1])
			pprof.StartCPUProfile(f)
			defer pprof.StopCPUProfile()
			i++
		case a == "--max-paths" && i+1 < len(os.Args):
			mp, _ := strconv.Atoi(os.Args[i+1])
			maxPathsFlag = int64(mp)
			i++
		case a == "--no-native":
			cfg.noNative = true
		case a == "--workers" && i+1 < len(os.Args):
			cfg.workers, _ = strconv.Atoi(os.Args[i+1])
			i++
		default:
			pos = append(pos, a)
		}
	}
	if cfg.tier == "thorough" {
		cfg.unwind, cfg.maxPieces, cfg.capFast, cfg.capFastImportant, cfg.capSlow = 64, 24, 10000, 20000, 180000
		cfg.maxPaths, cfg.witnessMax, cfg.diff = 4000000, 1500, true
		cfg.maxSteps = 20000000
	}
	if maxPathsFlag > 0 {
		cfg.maxPaths = maxPathsFlag
	}
	budget := 8 * time.Minute
	if cfg.tier == "thorough" {
		budget = 60 * time.Minute
	}
	if b := os.Getenv("VERIF_BUDGET_S"); b != "" {
		if n, err := strconv.Atoi(b); err == nil {
			budget = time.Duration(n) * time.Second
		}
	}
	cfg.deadline = time.Now().Add(budget)
	cfg.grace = budget / 4
	scratch, err := os.MkdirTemp("", "verif.")
	if err != nil {
		fmt.Println("INCONCLUSIVE: cannot create scratch directory:", err)
		os.Exit(2)
	}
	cfg.scratch = scratch
	code := 2
	func() {
		if os.Getenv("VERIF_KEEP") == "" {
			defer os.RemoveAll(scratch)
		} else {
			fmt.Fprintln(os.Stderr, "scratch kept:", scratch)
		}
		switch os.Args[1] {
		case "check":
			if len(pos) < 1 {
				fmt.Println("INCONCLUSIVE: no property given")
				return
			}
			code = doCheck(cfg, pos[0], only)
		case "run":
			if len(pos) < 1 {
				return
			}
			params := map[string]int{}
			for _, kv := range pos[1:] {
				if i := strings.IndexByte(kv, '='); i > 0 {
					params[kv[:i]], _ = strconv.Atoi(kv[i+1:])
				}
			}
			code = doRun(cfg, pos[0], params)
		case "replay":
			if len(pos) < 1 {
				return
			}
			code = doReplay(cfg, pos[0])
		default:
			fmt.Fprintln(os.Stderr, "unknown command", os.Args[1])
		}
	}()
	pprof.StopCPUProfile()
	os.Exit(code)
}

var maxPathsFlag int64

func loadProps(verif string) (map[string]*PropDef, error) {
	b, err := os.ReadFile(filepath.Join(verif, "props.json"))
	if err != nil {
		return nil, err
	}
	m := map[string]*PropDef{}
	if err := json.Unmarshal(b, &m); err != nil {
		return nil, fmt.Errorf("props.json: %v", err)
	}
	return m, nil
}

func doRun(cfg *Config, fn string, params map[string]int) int {
	eng, err := loadEngine(cfg)
	if err != nil {
		fmt.Println("INCONCLUSIVE:", err)
		return 2
	}
	spec := &HarnessSpec{Property: "DEV", Func: fn, Params: params}
	t0 := time.Now()
	h := eng.runHarness(spec)
	nr := &NativeRunner{eng: eng}
	ok, bad := postProcess(eng, nr, []*HarnessRun{h})
	fmt.Printf("paths=%d completed=%d infeasible=%d panics=%d unsupported=%d outside=%d decisions=%d smt=%d syntactic=%d cache=%d/%d wall=%.1fs witnesses ok=%d bad=%d\n",
		eng.stats.paths, eng.stats.completed, eng.stats.infeasible, eng.stats.panics, eng.stats.unsupported, eng.stats.outside,
		eng.stats.decisions, eng.stats.smtQueries, eng.stats.syntactic, gCache.hits, gCache.hits+gCache.misses, time.Since(t0).Seconds(), ok, len(bad))
	fmt.Printf("guessed=%d ", eng.stats.guessed)
	fmt.Printf("solver: z3new q=%d t=%.1fs unk=%d | cvc5 q=%d t=%.1fs unk=%d | z3old q=%d t=%.1fs unk=%d | steps=%d\n", gStats.queries[0], float64(gStats.timeNs[0])/1e9, gStats.unknown[0],
		gStats.queries[1], float64(gStats.timeNs[1])/1e9, gStats.unknown[1], gStats.queries[2], float64(gStats.timeNs[2])/1e9, gStats.unknown[2], eng.stats.steps)
	for _, m := range h.incon {
		fmt.Println("INCONCLUSIVE:", m)
	}
	for _, m := range bad {
		fmt.Println("WITNESS MISMATCH:", m)
	}
	labels := make([]string, 0, len(h.assertStat))
	for l := range h.assertStat {
		labels = append(labels, l)
	}
	sort.Strings(labels)
	for _, l := range labels {
		st := h.assertStat[l]
		fmt.Printf("  assert %-50q syntactic=%d smt=%d violated=%d unknown=%d\n", l, st[0], st[1], st[2], st[3])
	}
	for k, n := range h.outsideN {
		fmt.Printf("  outside-model paths: %d  (%s)\n", n, k)
	}
	keys := make([]string, 0, len(h.viol))
	for k := range h.viol {
		keys = append(keys, k)
	}
	sort.Strings(keys)
	for _, k := range keys {
		v := h.viol[k]
		fmt.Printf("VIOLATION-CANDIDATE %s label=%q known=%v count=%d native=%s (%s)\n   %s\n", v.Harness, v.Label, v.Known, v.Count, v.Confirmed, v.NativeOut, v.Case.pretty())
	}
	for _, s := range h.samples {
		fmt.Println("  sample:", s)
	}
	if len(h.viol) > 0 {
		return 1
	}
	if len(h.incon) > 0 || len(bad) > 0 {
		return 2
	}
	return 0
}

// postProcess confirms violations and validates witnesses natively.
func postProcess(eng *Engine, nr *NativeRunner, runs []*HarnessRun) (int, []string) {
	if eng.cfg.noNative {
		return 0, nil
	}
	type job func()
	var jobs []job
	var mu sync.Mutex
	okCount := 0
	var bad []string
	for _, h := range runs {
		for _, v := range h.viol {
			v := v
			jobs = append(jobs, func() { nr.confirm(v) })
		}
		for _, w := range h.witnesses {
			w := w
			h := h
			jobs = append(jobs, func() {
				ok, msg := nr.validate(w.witness)
				for try := 0; !ok && try < 2; try++ {
					// a mismatch must be deterministic to count: the native twin waits for quiescence by polling the
					// goroutine states, which a heavily loaded machine can make misjudge once; an encoder bug shows every time
					ok, msg = nr.validate(w.witness)
				}
				mu.Lock()
				defer mu.Unlock()
				if ok {
					okCount++
				} else if w.witness.NonDet || len(w.notes) > 0 {
					// paths through over-approximating models or native nondeterminism are not comparable
					okCount += 0
				} else {
					if len(bad) < 20 {
						bad = append(bad, fmt.Sprintf("%s: %s [%s]", h.spec.Func, msg, w.witness.pretty()))
					}
				}
			})
		}
	}
	if len(jobs) == 0 {
		return 0, nil
	}
	if err := nr.build(); err != nil {
		return 0, []string{err.Error()}
	}
	ch := make(chan job)
	var wg sync.WaitGroup
	for i := 0; i < eng.cfg.workers; i++ {
		wg.Add(1)
		go func() {
			defer wg.Done()
			for j := range ch {
				j()
			}
		}()
	}
	for _, j := range jobs {
		ch <- j
	}
	close(ch)
	wg.Wait()
	return okCount, bad
}

func doReplay(cfg *Config, file string) int {
	b, err := os.ReadFile(file)
	if err != nil {
		fmt.Println("INCONCLUSIVE:", err)
		return 2
	}
	v := &Violation{}
	if err := json.Unmarshal(b, v); err != nil || v.Case == nil {
		fmt.Println("INCONCLUSIVE: not a replay file:", err)
		return 2
	}
	eng := &Engine{cfg: cfg}
	mod, err := modulePath(cfg.repoDir)
	if err != nil {
		fmt.Println("INCONCLUSIVE:", err)
		return 2
	}
	if _, _, err := buildOverlay(cfg, mod); err != nil {
		fmt.Println("INCONCLUSIVE:", err)
		return 2
	}
	// reuse loadEngine's overlay writer without loading SSA
	e2, err := loadEngine(cfg)
	if err != nil {
		fmt.Println("INCONCLUSIVE:", err)
		return 2
	}
	eng = e2
	nr := &NativeRunner{eng: eng}
	nr.confirm(v)
	fmt.Printf("replay of %s label=%q: %s (%s)\n", v.Harness, v.Label, v.Confirmed, v.NativeOut)
	if v.Confirmed == "reproduced" {
		fmt.Printf("VIOLATION property=%s replay=%s\n", v.Property, file)
		return 1
	}
	return 0
}

func doCheck(cfg *Config, id, only string) int {
	t0 := time.Now()
	props, err := loadProps(cfg.verifDir)
	if err != nil {
		fmt.Println("INCONCLUSIVE:", err)
		return 2
	}
	pd, ok := props[id]
	if !ok {
		fmt.Println("INCONCLUSIVE: no check defined for", id)
		return 2
	}
	ev := &evidence{PropertyID: id, Tier: cfg.tier, Seed: cfg.seed, Level: "model_checking"}
	eng, err := loadEngine(cfg)
	if err != nil {
		fmt.Println("INCONCLUSIVE:", err)
		writeEvidenceFailure(cfg, ev, err.Error(), t0)
		return 2
	}
	var runs []*HarnessRun
	for _, hd := range pd.Harnesses {
		if only != "" && hd.Func != only {
			continue
		}
		params := hd.Quick
		if cfg.tier == "thorough" && hd.Thorough != nil {
			params = hd.Thorough
		}
		if cfg.tier != "thorough" && hd.ThoroughOnly {
			continue // a configuration that only the thorough tier runs
		}
		spec := &HarnessSpec{Property: id, Func: hd.Func, Params: params, NoWitness: hd.NoWitness, Reach: hd.Reach}
		th := time.Now()
		h := eng.runHarness(spec)
		fmt.Fprintf(os.Stderr, "[%s] %s: paths=%d violations=%d inconclusive=%d (%.1fs)\n", id, hd.Func, h.npaths, len(h.viol), len(h.incon), time.Since(th).Seconds())
		runs = append(runs, h)
	}
	nr := &NativeRunner{eng: eng}
	okW, badW := postProcess(eng, nr, runs)
	known := loadKnown(cfg.verifDir)
	exit := 0
	var incon []string
	nViol := 0
	var knownRepro []string
	replayDir := filepath.Join(cfg.verifDir, "replay")
	if d := os.Getenv("VERIF_EVIDENCE_DIR"); d != "" {
		replayDir = filepath.Join(d, "replay")
	}
	os.MkdirAll(replayDir, 0o755)
	for _, h := range runs {
		for _, m := range h.incon {
			incon = append(incon, h.spec.Func+": "+m)
		}
		// vacuity: required reach labels
		for _, r := range append([]string{"end"}, h.spec.Reach...) {
			if h.reachCount[r] == 0 && len(h.incon) == 0 {
				incon = append(incon, fmt.Sprintf("%s: vacuity — no path reached rt.Reach(%q)", h.spec.Func, r))
			}
		}
		keys := make([]string, 0, len(h.viol))
		for k := range h.viol {
			keys = append(keys, k)
		}
		sort.Strings(keys)
		for i, k := range keys {
			v := h.viol[k]
			if v.Confirmed == "not-reproduced" {
				incon = append(incon, fmt.Sprintf("%s: counterexample for %q did not reproduce natively (%s): encoding or stub suspect", h.spec.Func, v.Label, v.NativeOut))
				continue
			}
			if v.Confirmed == "not-run" {
				incon = append(incon, fmt.Sprintf("%s: counterexample for %q could not be replayed (%s)", h.spec.Func, v.Label, v.NativeOut))
				continue
			}
			// known-finding filter
			isKnown := false
			for _, t := range v.Known {
				for _, e := range known {
					if e.status == "open" && e.property == id && e.tag == t {
						isKnown = true
						line := fmt.Sprintf("KNOWN-FINDING: property=%s tag=%s %s", id, t, e.text)
						dup := false
						for _, l := range knownRepro {
							if l == line {
								dup = true
							}
						}
						if !dup {
							knownRepro = append(knownRepro, line)
						}
					}
				}
			}
			if isKnown {
				continue
			}
			nViol++
			file := filepath.Join(replayDir, fmt.Sprintf("%s-%s-%d.json", id, h.spec.Func, i))
			v.Case.Label = v.Label
			jb, _ := json.MarshalIndent(v, "", " ")
			os.WriteFile(file, jb, 0o644)
			fmt.Printf("VIOLATION property=%s replay=%s\n", id, file)
			fmt.Printf("  harness=%s assertion=%q occurrences=%d native=%s (%s)\n  inputs: %s\n", v.Harness, v.Label, v.Count, v.Confirmed, v.NativeOut, v.Case.pretty())
			exit = 1
		}
	}
	for _, l := range knownRepro {
		fmt.Println(l)
	}
	for _, m := range badW {
		incon = append(incon, "encoder validation mismatch: "+m)
	}
	if eng.stats.disagreements > 0 {
		incon = append(incon, fmt.Sprintf("%d solver disagreements", eng.stats.disagreements))
	}
	if exit == 0 && len(incon) > 0 {
		exit = 2
	}
	for _, m := range incon {
		fmt.Println("INCONCLUSIVE:", firstLines(m, 8))
	}
	ev.fill(eng, pd, runs, okW, len(badW), nViol, knownRepro, incon, t0)
	if err := ev.write(cfg); err != nil {
		fmt.Println("INCONCLUSIVE: cannot write evidence:", err)
		if exit == 0 {
			exit = 2
		}
	}
	verdict := map[int]string{0: "holds", 1: "violation", 2: "inconclusive"}[exit]
	fmt.Printf("RESULT %s %s tier=%s paths=%d smt_queries=%d native_validated=%d wall=%.1fs\n", id, verdict, cfg.tier, eng.stats.paths, eng.stats.smtQueries, okW, time.Since(t0).Seconds())
	return exit
}

// ---------------------------------------------------------------- evidence

type evidence struct {
	PropertyID  string                 `json:"property_id"`
	Tier        string                 `json:"tier"`
	Seed        int64                  `json:"seed"`
	Level       string                 `json:"level"`
	Coverage    map[string]interface{} `json:"coverage"`
	Assumptions []string               `json:"assumptions"`
	WallS       float64                `json:"wall_s"`
	Violations  int                    `json:"violations"`
}

func writeEvidenceFailure(cfg *Config, ev *evidence, msg string, t0 time.Time) {
	ev.Level = "other"
	ev.Coverage = map[string]interface{}{"explanation": "the check could not run: " + firstLines(msg, 5), "evaluations": 0, "distinct_nontrivial": 0}
	ev.WallS = time.Since(t0).Seconds()
	ev.write(cfg)
}

func (ev *evidence) write(cfg *Config) error {
	dir := filepath.Join(cfg.verifDir, "evidence")
	if d := os.Getenv("VERIF_EVIDENCE_DIR"); d != "" {
		dir = d // self-test runs against scratch trees must not overwrite the evidence of /repo
	}
	os.MkdirAll(dir, 0o755)
	b, err := json.MarshalIndent(ev, "", " ")
	if err != nil {
		return err
	}
	return os.WriteFile(filepath.Join(dir, ev.PropertyID+".json"), b, 0o644)
}

func (ev *evidence) fill(eng *Engine, pd *PropDef, runs []*HarnessRun, okW, badW, nViol int, known, incon []string, t0 time.Time) {
	st := eng.stats
	cov := map[string]interface{}{}
	cov["states"] = atomic.LoadInt64(&st.completed) + atomic.LoadInt64(&st.panics)
	cov["transitions"] = atomic.LoadInt64(&st.decisions)
	cov["traces_validated_against_impl"] = okW
	var samples []interface{}
	funcs := map[string]int64{}
	harn := []interface{}{}
	for _, h := range runs {
		for _, s := range h.samples {
			if len(samples) < 12 {
				samples = append(samples, map[string]string{"harness": h.spec.Func, "path_witness": s})
			}
		}
		for k, v := range h.funcs {
			funcs[k] += v
		}
		as := map[string]interface{}{}
		for l, s := range h.assertStat {
			as[l] = map[string]int64{"holds_syntactic": s[0], "holds_smt": s[1], "violated": s[2], "undecided": s[3]}
		}
		reach := map[string]int64{}
		for k, v := range h.reachCount {
			reach[k] = v
		}
		harn = append(harn, map[string]interface{}{"harness": h.spec.Func, "params": h.spec.Params, "paths": h.npaths,
			"assertions": as, "reach_counts": reach, "outside_model_paths": h.outsideN, "violations": len(h.viol)})
	}
	if len(samples) == 0 {
		samples = append(samples, "no completed path")
	}
	cov["samples"] = samples
	// functions of the repository that were executed symbolically
	var fl []string
	for k, v := range funcs {
		if strings.Contains(k, eng.modPath) || !strings.Contains(k, "/") {
			if strings.Contains(k, "zzverif") {
				continue
			}
			fl = append(fl, fmt.Sprintf("%s (%d calls)", strings.ReplaceAll(k, eng.modPath+".", ""), v))
		}
	}
	sort.Strings(fl)
	cov["functions_encoded"] = fl
	cov["harnesses"] = harn
	cov["bounds"] = append(append([]string{"the parameters this run actually used are listed per harness under coverage.harnesses[].params; where a text below names 'quick / thorough' values that differ, the listed parameters prevail (thorough bounds that were not run clean on the unchanged tree are registered at the quick values)"}, pd.Bounds...), fmt.Sprintf("loop unwinding bound %d per frame (UNWIND is reported, never truncated silently)", eng.cfg.unwind),
		fmt.Sprintf("Split/Fields piece bound %d, call depth %d, %d instructions per path", eng.cfg.maxPieces, eng.cfg.maxDepth, eng.cfg.maxSteps))
	cov["outside_the_claim"] = pd.Outside
	cov["paths"] = map[string]int64{"explored": st.paths, "completed": st.completed, "infeasible": st.infeasible, "ended_in_panic": st.panics,
		"unsupported": st.unsupported, "unwind": st.unwinds, "outside_model": st.outside, "deadlock": st.deadlocks}
	cov["queries"] = map[string]interface{}{"decided_syntactically": st.syntactic, "sat_by_concrete_witness": st.guessed, "smt": st.smtQueries, "cache_hits": gCache.hits,
		"z3_new": gStats.queries[Z3New], "cvc5": gStats.queries[CVC5], "z3_4_8": gStats.queries[Z3Old],
		"unknown_z3_new": gStats.unknown[Z3New], "unknown_cvc5": gStats.unknown[CVC5], "unknown_z3_4_8": gStats.unknown[Z3Old],
		"unknown_feasibility_kept": st.unknownFeas, "solver_errors": gStats.errors, "diffed_against_second_solver": st.diffed, "disagreements": st.disagreements}
	cov["assertions"] = map[string]int64{"checked": st.assertsChecked, "syntactic": st.assertsSyntactic, "smt": st.assertsSMT, "undecided": st.assertsUnknown}
	cov["solver_time_s"] = float64(gStats.timeNs[0]+gStats.timeNs[1]+gStats.timeNs[2]) / 1e9
	cov["interpreted_ssa_instructions"] = st.steps
	cov["native_validation"] = map[string]int{"witnesses_matching": okW, "mismatches": badW}
	cov["known_findings_reproduced"] = known
	cov["inconclusive"] = incon
	cov["exhaustive"] = len(incon) == 0
	cov["explanation"] = "bounded symbolic execution of the repository's SSA; every decision is an exhaustive case split decided by SMT; see bounds"
	ev.Coverage = cov
	ev.Assumptions = append(append([]string{}, pd.Assumptions...),
		"go/ssa translation of Go; symgo's SSA rules and normal-form string operations (validated per path against the native build)",
		"intrinsic models of strings/strconv/fmt/bytes/bufio(contract)/regexp/sync; zap logging = no-op; uuid = arbitrary lowercase hex",
		"net and time replaced by the fakenet/faketime shims (same source executed symbolically and natively)",
		"SMT solvers z3 5.1 / cvc5 1.0 / z3 4.8.12; any (error or unknown makes the check inconclusive")
	ev.WallS = time.Since(t0).Seconds()
	ev.Violations = nViol
}
