package main

// SSA interpreter over symbolic values.

import (
	"fmt"
	"go/constant"
	"go/token"
	"go/types"
	"math"
	"math/big"
	"strings"

	"golang.org/x/tools/go/ssa"
)

type deferred struct {
	fn   Value // *Closure or *ssa.Function wrapper
	args []Value
	call *ssa.CallCommon
	recv Value
}

type Frame struct {
	fn     *ssa.Function
	env    map[ssa.Value]Value
	defers []func()
	visits map[int]int
	prev   *ssa.BasicBlock
	caller *Frame
	pos    token.Pos
}

// Interp executes one goroutine of one path.
type Interp struct {
	p     *Path
	eng   *Engine
	g     *Goroutine
	depth int
	top   *Frame
	initMode bool
}

type goPanic struct {
	msg string
}

func (in *Interp) unsupported(format string, a ...interface{}) {
	where := ""
	if in.top != nil {
		where = " at " + in.eng.prog.Fset.Position(in.top.pos).String() + " in " + in.top.fn.String()
	}
	in.p.abort("unsupported", fmt.Sprintf(format, a...)+where)
}

// panicGo models a Go run-time panic on a feasible path.
func (in *Interp) panicGo(msg string) {
	where := ""
	if in.top != nil {
		pos := in.eng.prog.Fset.Position(in.top.pos)
		where = fmt.Sprintf(" [%s:%d in %s]", shortFile(pos.Filename), pos.Line, in.top.fn.Name())
	}
	in.p.recordPanic(msg + where)
	in.p.abort("panic", msg+where)
}

func shortFile(f string) string {
	if i := strings.LastIndexByte(f, '/'); i >= 0 {
		return f[i+1:]
	}
	return f
}

func (in *Interp) global(g *ssa.Global) *Cell {
	if c, ok := in.p.globals[g]; ok {
		return c
	}
	c := in.newCell(in.zero(g.Type().(*types.Pointer).Elem()))
	in.p.globals[g] = c
	if g.Pkg != nil {
		if msg, ok := stdErrorGlobals[g.Pkg.Pkg.Path()+"."+g.Name()]; ok {
			c.v = in.mkErrS(msg)
		}
	}
	return c
}

func (in *Interp) constVal(c *ssa.Const) Value {
	t := c.Type()
	if c.Value == nil {
		return in.zero(t)
	}
	switch u := t.Underlying().(type) {
	case *types.Basic:
		switch {
		case u.Info()&types.IsBoolean != 0:
			return mkBool(constant.BoolVal(c.Value))
		case u.Info()&types.IsString != 0:
			return mkStr(constant.StringVal(c.Value))
		case u.Info()&types.IsInteger != 0:
			if v, ok := constant.Int64Val(constant.ToInt(c.Value)); ok {
				return mkInt(v)
			}
			if v, ok := constant.Uint64Val(constant.ToInt(c.Value)); ok {
				return mkInt(int64(v))
			}
			in.unsupported("integer constant %v", c.Value)
		case u.Info()&types.IsFloat != 0:
			f, _ := constant.Float64Val(c.Value)
			r := new(big.Rat)
			if r.SetFloat64(f) != nil && r.Num().IsInt64() && r.Denom().IsInt64() {
				return FloatV{linC(r.Num().Int64()), r.Denom().Int64()}
			}
			in.unsupported("float constant %v", c.Value)
		}
	}
	in.unsupported("constant of type %v", t)
	return nil
}

func (in *Interp) get(fr *Frame, v ssa.Value) Value {
	switch x := v.(type) {
	case *ssa.Const:
		return in.constVal(x)
	case *ssa.Global:
		return Ptr{in.global(x)}
	case *ssa.Function:
		return &Closure{fn: x}
	case *ssa.Builtin:
		return x
	}
	if r, ok := fr.env[v]; ok {
		return r
	}
	in.unsupported("unbound SSA value %s", v.Name())
	return nil
}

func typeRange(t types.Type) (int64, int64, bool) {
	b, ok := t.Underlying().(*types.Basic)
	if !ok {
		return 0, 0, false
	}
	switch b.Kind() {
	case types.Int, types.Int64:
		return math.MinInt64, math.MaxInt64, true
	case types.Int32:
		return math.MinInt32, math.MaxInt32, true
	case types.Int16:
		return math.MinInt16, math.MaxInt16, true
	case types.Int8:
		return math.MinInt8, math.MaxInt8, true
	case types.Uint8:
		return 0, 255, true
	case types.Uint16:
		return 0, 65535, true
	case types.Uint32:
		return 0, math.MaxUint32, true
	case types.Uint, types.Uint64, types.Uintptr:
		return 0, math.MaxInt64, true // upper half not representable here; see wrap()
	}
	return 0, 0, false
}

// wrap reduces an integer result into the range of its Go type (two's complement) when its
// interval shows that it may leave the range.
func (in *Interp) wrap(l Lin, t types.Type) Lin {
	lo, hi, ok := typeRange(t)
	if !ok {
		return l
	}
	a, b := in.p.interval(l)
	if a >= lo && b <= hi && a != negInf && b != posInf {
		return l
	}
	if a >= lo && b <= hi && lo == math.MinInt64 {
		// interval arithmetic saturated exactly at the type bounds: may have overflowed
		if a != negInf && b != posInf {
			return l
		}
	}
	bk := t.Underlying().(*types.Basic).Kind()
	var mod, off string
	switch bk {
	case types.Int, types.Int64:
		mod, off = "18446744073709551616", "9223372036854775808"
	case types.Int32:
		mod, off = "4294967296", "2147483648"
	case types.Uint8:
		mod, off = "256", "0"
	case types.Uint16:
		mod, off = "65536", "0"
	case types.Uint32:
		mod, off = "4294967296", "0"
	default:
		in.unsupported("possible overflow in type %v", t)
	}
	v := in.p.newIVar("wrap", lo, hi)
	src := l
	v.deps = varsOf(src)
	if bk == types.Int || bk == types.Int64 {
		v.eval = func(m *Model) int64 { return m.lin(src) } // int64 arithmetic wraps by itself
	} else if bk == types.Int32 {
		v.eval = func(m *Model) int64 { return int64(int32(m.lin(src))) }
	} else if bk == types.Uint8 {
		v.eval = func(m *Model) int64 { return int64(uint8(m.lin(src))) }
	} else if bk == types.Uint16 {
		v.eval = func(m *Model) int64 { return int64(uint16(m.lin(src))) }
	} else if bk == types.Uint32 {
		v.eval = func(m *Model) int64 { return int64(uint32(m.lin(src))) }
	}
	v.def = func(r *renderer) string {
		return "(- (mod (+ " + r.lin(src) + " " + off + ") " + mod + ") " + off + ")"
	}
	in.p.depVar[v.id] = true
	return linV(v.id)
}

func varsOf(l Lin) []int {
	var out []int
	for _, t := range l.ts {
		out = append(out, t.v)
	}
	return out
}

// nonlin creates a defined variable for a non-linear integer operation.
func (in *Interp) nonlin(name string, lo, hi int64, deps []Lin, def func(r *renderer) string, eval func(m *Model) int64) Lin {
	v := in.p.newIVar(name, lo, hi)
	v.eval = eval
	for _, d := range deps {
		v.deps = append(v.deps, varsOf(in.p.resLin(d))...)
	}
	v.def = def
	v.defLo, v.defHi = lo, hi
	in.p.depVar[v.id] = true
	return linV(v.id)
}

func (in *Interp) asLin(v Value) Lin {
	switch x := v.(type) {
	case IntV:
		return x.l
	case ByteV:
		return in.byteToLin(x.b)
	}
	in.unsupported("expected integer, got %s", describe(v))
	return Lin{}
}

// byteToLin turns a symbolic byte into an integer variable (via str.to_code).
func (in *Interp) byteToLin(b byteVal) Lin {
	if b.atom == 0 {
		return linC(int64(b.c))
	}
	if v, ok := in.p.byteVars[b.atom]; ok {
		return linV(v)
	}
	a := in.p.atoms[b.atom]
	lo, hi := int64(255), int64(0)
	for i := 0; i < 256; i++ {
		if a.cls.has(byte(i)) {
			if int64(i) < lo {
				lo = int64(i)
			}
			if int64(i) > hi {
				hi = int64(i)
			}
		}
	}
	v := in.p.newIVar("code("+a.name+")", lo, hi)
	id := b.atom
	v.depsNF = []NF{{{atom: id}}}
	v.def = func(r *renderer) string { return "(str.to_code " + r.nf(NF{{atom: id}}) + ")" }
	v.eval = func(m *Model) int64 {
		s := m.atomVal(id)
		if len(s) != 1 {
			return -1
		}
		return int64(s[0])
	}
	in.p.depVar[v.id] = true
	in.p.depAtom[id] = true
	in.p.byteVars[b.atom] = v.id
	return linV(v.id)
}

func (in *Interp) cmpLin(op token.Token, a, b Lin) *B {
	d := a.sub(b)
	switch op {
	case token.EQL:
		return bLin(d, EQ0)
	case token.NEQ:
		return bLin(d, NE0)
	case token.LSS:
		return bLin(d, LT0)
	case token.LEQ:
		return bLin(d, LE0)
	case token.GTR:
		return bLin(d.scale(-1), LT0)
	case token.GEQ:
		return bLin(d.scale(-1), LE0)
	}
	in.unsupported("comparison %v", op)
	return nil
}

func (in *Interp) binop(op token.Token, x, y Value, t types.Type) Value {
	switch a := x.(type) {
	case IntV:
		if by, ok := y.(ByteV); ok {
			return in.binop(op, by, a, t)
		}
		b := y.(IntV)
		al, bl := in.p.resLin(a.l), in.p.resLin(b.l)
		switch op {
		case token.ADD:
			return IntV{in.wrap(al.add(bl), t)}
		case token.SUB:
			return IntV{in.wrap(al.sub(bl), t)}
		case token.MUL:
			if al.isConst() {
				return IntV{in.wrap(bl.scale(al.c), t)}
			}
			if bl.isConst() {
				return IntV{in.wrap(al.scale(bl.c), t)}
			}
			alo, ahi := in.p.interval(al)
			blo, bhi := in.p.interval(bl)
			c := []int64{satMul(alo, blo), satMul(alo, bhi), satMul(ahi, blo), satMul(ahi, bhi)}
			lo, hi := c[0], c[0]
			for _, v := range c {
				if v < lo {
					lo = v
				}
				if v > hi {
					hi = v
				}
			}
			return IntV{in.wrap(in.nonlin("mul", lo, hi, []Lin{al, bl}, func(r *renderer) string {
				return "(* " + r.lin(al) + " " + r.lin(bl) + ")"
			}, func(m *Model) int64 { return m.lin(al) * m.lin(bl) }), t)}
		case token.QUO, token.REM:
			if bl.isConst() && bl.c == 0 {
				in.panicGo("runtime error: integer divide by zero")
			}
			if !bl.isConst() {
				if in.p.branch("div0", bLin(bl, EQ0)) {
					in.panicGo("runtime error: integer divide by zero")
				}
			}
			if al.isConst() && bl.isConst() {
				if op == token.QUO {
					return mkInt(al.c / bl.c)
				}
				return mkInt(al.c % bl.c)
			}
			alo, ahi := in.p.interval(al)
			if bl.isConst() && bl.c > 0 {
				c := bl.c
				if op == token.QUO {
					lo, hi := alo, ahi
					if lo != negInf {
						lo = lo / c
					}
					if hi != posInf {
						hi = hi / c
					}
					return IntV{in.nonlin("quo", lo, hi, []Lin{al}, func(r *renderer) string {
						x := r.lin(al)
						return fmt.Sprintf("(ite (>= %s 0) (div %s %d) (- (div (- %s) %d)))", x, x, c, x, c)
					}, func(m *Model) int64 { return m.lin(al) / c })}
				}
				lo, hi := int64(0), c-1
				if alo < 0 {
					lo = -(c - 1)
				}
				if ahi < 0 {
					hi = 0
				}
				return IntV{in.nonlin("rem", lo, hi, []Lin{al}, func(r *renderer) string {
					x := r.lin(al)
					return fmt.Sprintf("(ite (>= %s 0) (mod %s %d) (- (mod (- %s) %d)))", x, x, c, x, c)
				}, func(m *Model) int64 { return m.lin(al) % c })}
			}
			in.unsupported("division by symbolic or negative divisor")
		case token.EQL, token.NEQ, token.LSS, token.LEQ, token.GTR, token.GEQ:
			return BoolV{in.cmpLin(op, al, bl)}
		case token.AND, token.OR, token.XOR, token.SHL, token.SHR, token.AND_NOT:
			if al.isConst() && bl.isConst() {
				var r int64
				switch op {
				case token.AND:
					r = al.c & bl.c
				case token.OR:
					r = al.c | bl.c
				case token.XOR:
					r = al.c ^ bl.c
				case token.SHL:
					r = al.c << uint(bl.c)
				case token.SHR:
					r = al.c >> uint(bl.c)
				case token.AND_NOT:
					r = al.c &^ bl.c
				}
				return IntV{in.wrap(linC(r), t)}
			}
			in.unsupported("bit operation %v on symbolic integers", op)
		}
	case ByteV:
		// symbolic byte compared with a constant or another byte
		switch op {
		case token.EQL, token.NEQ:
			var other NF
			switch b := y.(type) {
			case IntV:
				bl := in.p.resLin(b.l)
				if !bl.isConst() {
					return in.binop(op, IntV{in.byteToLin(a.b)}, y, t)
				}
				if bl.c < 0 || bl.c > 255 {
					return mkBool(op == token.NEQ)
				}
				other = nfLit(string([]byte{byte(bl.c)}))
			case ByteV:
				other = b.b.nf()
			}
			e := in.p.strEq(a.b.nf(), other)
			if op == token.NEQ {
				e = bNot(e)
			}
			return BoolV{e}
		}
		var yl Value = y
		if by, ok := y.(ByteV); ok {
			yl = IntV{in.byteToLin(by.b)}
		}
		return in.binop(op, IntV{in.byteToLin(a.b)}, yl, t)
	case StrV:
		b := y.(StrV)
		switch op {
		case token.ADD:
			return StrV{nfCat(in.p.res(a.n), in.p.res(b.n))}
		case token.EQL:
			return BoolV{in.p.strEq(a.n, b.n)}
		case token.NEQ:
			return BoolV{bNot(in.p.strEq(a.n, b.n))}
		case token.LSS:
			return BoolV{in.p.simp(&B{k: BStrLt, a: a.n, b: b.n})}
		case token.LEQ:
			return BoolV{in.p.simp(&B{k: BStrLe, a: a.n, b: b.n})}
		case token.GTR:
			return BoolV{in.p.simp(&B{k: BStrLt, a: b.n, b: a.n})}
		case token.GEQ:
			return BoolV{in.p.simp(&B{k: BStrLe, a: b.n, b: a.n})}
		}
	case BoolV:
		b := y.(BoolV)
		switch op {
		case token.EQL:
			return BoolV{bOr(bAnd(a.b, b.b), bAnd(bNot(a.b), bNot(b.b)))}
		case token.NEQ:
			return BoolV{bOr(bAnd(a.b, bNot(b.b)), bAnd(bNot(a.b), b.b))}
		case token.AND, token.LAND:
			return BoolV{bAnd(a.b, b.b)}
		case token.OR, token.LOR:
			return BoolV{bOr(a.b, b.b)}
		}
	case FloatV:
		b, ok := y.(FloatV)
		if !ok {
			in.unsupported("float op with %s", describe(y))
		}
		switch op {
		case token.ADD, token.SUB:
			n1, n2 := a.num.scale(b.den), b.num.scale(a.den)
			if op == token.SUB {
				n2 = n2.scale(-1)
			}
			return FloatV{n1.add(n2), a.den * b.den}
		case token.MUL:
			if a.num.isConst() {
				return FloatV{b.num.scale(a.num.c), a.den * b.den}
			}
			if b.num.isConst() {
				return FloatV{a.num.scale(b.num.c), a.den * b.den}
			}
		case token.QUO:
			if b.num.isConst() && b.num.c != 0 {
				// (a.num/a.den) / (b.num/b.den) = a.num*b.den / (a.den*b.num)
				d := a.den * b.num.c
				n := a.num.scale(b.den)
				if d < 0 {
					d, n = -d, n.scale(-1)
				}
				return FloatV{n, d}
			}
		case token.EQL, token.NEQ, token.LSS, token.LEQ, token.GTR, token.GEQ:
			// denominators are positive
			return BoolV{in.cmpLin(op, a.num.scale(b.den), b.num.scale(a.den))}
		}
		in.unsupported("float operation %v", op)
	default:
		switch op {
		case token.EQL:
			return mkBool(in.sameRef(x, y))
		case token.NEQ:
			return mkBool(!in.sameRef(x, y))
		}
	}
	in.unsupported("binop %v on %s, %s", op, describe(x), describe(y))
	return nil
}

// sameRef implements == for pointers, interfaces, maps, channels, funcs (nil checks) and structs.
func (in *Interp) sameRef(x, y Value) bool {
	switch a := x.(type) {
	case Ptr:
		b, ok := y.(Ptr)
		return ok && a.c == b.c
	case IfaceV:
		b, ok := y.(IfaceV)
		if !ok {
			return false
		}
		if a.t == nil || b.t == nil {
			return a.t == nil && b.t == nil
		}
		if !types.Identical(a.t, b.t) {
			return false
		}
		return in.eqConcrete(a.v, b.v)
	case *MapObj:
		b, ok := y.(*MapObj)
		return ok && a == b
	case *ChanObj:
		b, ok := y.(*ChanObj)
		return ok && a == b
	case *Closure:
		b, ok := y.(*Closure)
		return ok && a == nil && b == nil || (ok && a == b)
	case SliceV:
		b, ok := y.(SliceV)
		return ok && a.a == nil && b.a == nil
	case BytesV:
		b, ok := y.(BytesV)
		return ok && a.o == nil && b.o == nil
	case *StructV:
		b, ok := y.(*StructV)
		if !ok || len(a.f) != len(b.f) {
			return false
		}
		for i := range a.f {
			if !in.eqConcrete(a.f[i].v, b.f[i].v) {
				return false
			}
		}
		return true
	}
	in.unsupported("equality on %s", describe(x))
	return false
}

// eqConcrete compares two values of identical dynamic type; symbolic contents fork.
func (in *Interp) eqConcrete(x, y Value) bool {
	switch a := x.(type) {
	case IntV:
		return in.p.branch("ifaceeq", bLin(a.l.sub(y.(IntV).l), EQ0))
	case StrV:
		return in.p.branch("ifaceeq", in.p.strEq(a.n, y.(StrV).n))
	case BoolV:
		return in.p.branch("ifaceeq", bOr(bAnd(a.b, y.(BoolV).b), bAnd(bNot(a.b), bNot(y.(BoolV).b))))
	}
	return in.sameRef(x, y)
}

func (in *Interp) truth(label string, v Value) bool {
	return in.p.branch(label, v.(BoolV).b)
}

// concreteInt forces an integer to a concrete value (forking over a small interval).
func (in *Interp) concreteInt(label string, l Lin) int64 {
	l = in.p.resLin(l)
	if l.isConst() {
		return l.c
	}
	lo, hi := in.p.interval(l)
	if lo == negInf || hi == posInf || hi-lo > int64(in.eng.cfg.maxIntSplit) {
		in.unsupported("cannot enumerate symbolic integer %s in [%d,%d] (%s)", l, lo, hi, label)
	}
	conds := make([]*B, 0, hi-lo+1)
	for k := lo; k <= hi; k++ {
		conds = append(conds, bLin(l.addC(-k), EQ0))
	}
	return lo + int64(in.p.fork(label, conds))
}

// ---------------------------------------------------------------- function execution

func (in *Interp) callFunction(fn *ssa.Function, args []Value, fv []Value) Value {
	name := fn.String()
	if fn.Pkg != nil {
		pp := fn.Pkg.Pkg.Path()
		if strings.HasPrefix(pp, "go.uber.org/zap") {
			res := fn.Signature.Results()
			switch res.Len() {
			case 0:
				return nil
			case 1:
				return in.zero(res.At(0).Type())
			}
			return in.zero(res)
		}
		if in.initMode && fn.Name() == "init" && fn.Pkg != in.eng.mainPkg && !strings.HasPrefix(pp, in.eng.modPath+"/") {
			return nil
		}
	}
	if h, ok := intrinsics[name]; ok {
		return h(in, fn, args)
	}
	if fn.Pkg != nil && fn.Pkg.Pkg.Path() == in.eng.rtPath {
		return in.rtCall(fn, args)
	}
	if fn.Pkg != nil && fn.Name() == "Sleep" && fn.Pkg.Pkg.Path() == in.eng.modPath+"/zzverif/faketime" {
		in.fakeSleep(fn, args[0])
		return nil
	}
	if fn.Blocks == nil {
		in.unsupported("call to function without body %s", name)
	}
	if !in.eng.allowed(fn) {
		in.unsupported("call to external function %s (no model)", name)
	}
	in.depth++
	if in.depth > in.eng.cfg.maxDepth {
		in.p.abort("unwind", "call depth bound exceeded in "+name)
	}
	fr := &Frame{fn: fn, env: make(map[ssa.Value]Value, 16), visits: map[int]int{}, caller: in.top}
	for i, p := range fn.Params {
		fr.env[p] = args[i]
	}
	for i, f := range fn.FreeVars {
		fr.env[f] = fv[i]
	}
	saved := in.top
	in.top = fr
	if in.p.funcsSeen != nil {
		in.p.funcsSeen[name]++
	}
	res := in.run(fr)
	in.top = saved
	in.depth--
	return res
}

func (in *Interp) run(fr *Frame) Value {
	b := fr.fn.Blocks[0]
	bound := in.eng.cfg.unwind
	if in.p.unwind > bound {
		bound = in.p.unwind // stated by the harness (rt.Unwind)
	}
	if in.eng.isHarnessFn(fr.fn) {
		bound = 100000 // harness loops are bounded by construction (concrete skeleton parameters)
	}
	for {
		fr.visits[b.Index]++
		if fr.visits[b.Index] > bound {
			if !in.eng.isHarnessFn(fr.fn) {
				// a loop of the repository that runs past the bound may simply need a larger bound — or never end. The
				// native run of the same inputs decides: a hang is a violation (the message loop stalls), anything
				// else leaves the path inconclusive as before.
				in.p.violate(fmt.Sprintf("nontermination: %s does not leave its loop (block %d) within %d iterations on this input; natively the run hangs", fr.fn.String(), b.Index, bound), nil)
			}
			in.p.abort("unwind", fmt.Sprintf("loop bound %d exceeded in %s block %d", bound, fr.fn.String(), b.Index))
		}
		var next *ssa.BasicBlock
		for _, ins := range b.Instrs {
			in.p.steps++
			if in.p.steps > in.eng.cfg.maxSteps {
				in.p.abort("unwind", "instruction budget exceeded")
			}
			if p := ins.Pos(); p.IsValid() {
				fr.pos = p
			}
			switch x := ins.(type) {
			case *ssa.Phi:
				for i, pred := range b.Preds {
					if pred == fr.prev {
						fr.env[x] = in.get(fr, x.Edges[i])
						break
					}
				}
			case *ssa.If:
				if in.truth("if", in.get(fr, x.Cond)) {
					next = b.Succs[0]
				} else {
					next = b.Succs[1]
				}
			case *ssa.Jump:
				next = b.Succs[0]
			case *ssa.Return:
				var res Value
				switch len(x.Results) {
				case 0:
				case 1:
					res = in.get(fr, x.Results[0])
				default:
					t := make(TupleV, len(x.Results))
					for i, r := range x.Results {
						t[i] = in.get(fr, r)
					}
					res = t
				}
				return res
			case *ssa.RunDefers:
				in.runDefers(fr)
			case *ssa.Panic:
				in.panicGo("panic: " + in.panicText(in.get(fr, x.X)))
			default:
				in.exec(fr, ins)
			}
		}
		if next == nil {
			in.unsupported("block without terminator")
		}
		fr.prev = b
		b = next
	}
}

func (in *Interp) panicText(v Value) string {
	if i, ok := v.(IfaceV); ok && i.t != nil {
		switch x := i.v.(type) {
		case StrV:
			if x.n.isLit() {
				return x.n.litValue()
			}
			return "<symbolic string>"
		}
		return i.t.String()
	}
	return "nil"
}

func (in *Interp) runDefers(fr *Frame) {
	for len(fr.defers) > 0 {
		d := fr.defers[len(fr.defers)-1]
		fr.defers = fr.defers[:len(fr.defers)-1]
		d()
	}
}

func (in *Interp) exec(fr *Frame, ins ssa.Instruction) {
	switch x := ins.(type) {
	case *ssa.DebugRef:
	case *ssa.Alloc:
		fr.env[x] = Ptr{in.newCell(in.zero(x.Type().(*types.Pointer).Elem()))}
	case *ssa.BinOp:
		fr.env[x] = in.binop(x.Op, in.get(fr, x.X), in.get(fr, x.Y), x.Type())
	case *ssa.UnOp:
		fr.env[x] = in.unop(fr, x)
	case *ssa.Call:
		fr.env[x] = in.doCall(fr, &x.Call, x)
	case *ssa.Store:
		p := in.get(fr, x.Addr).(Ptr)
		if p.c == nil {
			in.panicGo("runtime error: invalid memory address or nil pointer dereference")
		}
		in.p.access(in, p.c, true)
		if ref, ok := in.p.byteCells[p.c]; ok {
			in.bytesWrite(ref.b, ref.idx, in.byteNF(in.get(fr, x.Val)))
		}
		in.store(p.c, in.get(fr, x.Val))
	case *ssa.FieldAddr:
		p := in.get(fr, x.X).(Ptr)
		if p.c == nil {
			in.panicGo("runtime error: invalid memory address or nil pointer dereference")
		}
		s, ok := p.c.v.(*StructV)
		if !ok {
			in.unsupported("FieldAddr on %s", describe(p.c.v))
		}
		fr.env[x] = Ptr{s.f[x.Field]}
	case *ssa.Field:
		s := in.get(fr, x.X).(*StructV)
		fr.env[x] = in.copyVal(s.f[x.Field].v)
	case *ssa.IndexAddr:
		fr.env[x] = in.indexAddr(fr, x)
	case *ssa.Index:
		fr.env[x] = in.index(fr, x)
	case *ssa.Lookup:
		fr.env[x] = in.lookup(fr, x)
	case *ssa.Slice:
		fr.env[x] = in.sliceOp(fr, x)
	case *ssa.MakeSlice:
		fr.env[x] = in.makeSlice(fr, x)
	case *ssa.MakeMap:
		in.p.heapID++
		fr.env[x] = &MapObj{id: in.p.heapID}
	case *ssa.MakeChan:
		n := in.concreteInt("chan-size", in.asLin(in.get(fr, x.Size)))
		in.p.heapID++
		fr.env[x] = &ChanObj{cap: int(n), id: in.p.heapID}
	case *ssa.MapUpdate:
		m := in.get(fr, x.Map).(*MapObj)
		if m == nil {
			in.panicGo("assignment to entry in nil map")
		}
		in.p.accessMap(in, m, true)
		in.mapUpdate(m, in.get(fr, x.Key), in.get(fr, x.Value))
	case *ssa.MakeInterface:
		fr.env[x] = IfaceV{t: x.X.Type(), v: in.get(fr, x.X)}
	case *ssa.ChangeInterface:
		fr.env[x] = in.get(fr, x.X)
	case *ssa.ChangeType:
		fr.env[x] = in.get(fr, x.X)
	case *ssa.Convert:
		fr.env[x] = in.convert(in.get(fr, x.X), x.X.Type(), x.Type())
	case *ssa.MultiConvert:
		fr.env[x] = in.convert(in.get(fr, x.X), x.X.Type(), x.Type())
	case *ssa.SliceToArrayPointer:
		in.unsupported("slice to array pointer")
	case *ssa.TypeAssert:
		fr.env[x] = in.typeAssert(in.get(fr, x.X).(IfaceV), x)
	case *ssa.Extract:
		fr.env[x] = in.get(fr, x.Tuple).(TupleV)[x.Index]
	case *ssa.MakeClosure:
		c := &Closure{fn: x.Fn.(*ssa.Function)}
		for _, b := range x.Bindings {
			c.fv = append(c.fv, in.get(fr, b))
		}
		fr.env[x] = c
	case *ssa.Range:
		fr.env[x] = in.rangeInit(in.get(fr, x.X))
	case *ssa.Next:
		fr.env[x] = in.rangeNext(in.get(fr, x.Iter).(*rangeIter), x)
	case *ssa.Defer:
		call := x.Call
		fnv, args, recv := in.prepareCall(fr, &call)
		fr.defers = append(fr.defers, func() { in.invokePrepared(fnv, args, recv, &call) })
	case *ssa.Go:
		call := x.Call
		fnv, args, recv := in.prepareCall(fr, &call)
		in.p.sched.spawn(in, func(g *Interp) { g.invokePrepared(fnv, args, recv, &call) }, callName(&call))
	case *ssa.Send:
		in.p.sched.send(in, in.get(fr, x.Chan).(*ChanObj), in.get(fr, x.X))
	case *ssa.Select:
		fr.env[x] = in.p.sched.selectOp(in, fr, x)
	default:
		in.unsupported("SSA instruction %T", ins)
	}
}

func callName(c *ssa.CallCommon) string {
	if c.IsInvoke() {
		return c.Method.Name()
	}
	if f := c.StaticCallee(); f != nil {
		return f.Name()
	}
	return "closure"
}

func (in *Interp) unop(fr *Frame, x *ssa.UnOp) Value {
	v := in.get(fr, x.X)
	switch x.Op {
	case token.MUL:
		p := v.(Ptr)
		if p.c == nil {
			in.panicGo("runtime error: invalid memory address or nil pointer dereference")
		}
		in.p.access(in, p.c, false)
		return in.load(p.c)
	case token.NOT:
		return BoolV{bNot(v.(BoolV).b)}
	case token.SUB:
		switch a := v.(type) {
		case IntV:
			return IntV{in.wrap(a.l.scale(-1), x.Type())}
		case FloatV:
			return FloatV{a.num.scale(-1), a.den}
		}
	case token.ARROW:
		val, ok := in.p.sched.recv(in, v.(*ChanObj))
		if x.CommaOk {
			return TupleV{in.orZero(val, x.X.Type().Underlying().(*types.Chan).Elem()), mkBool(ok)}
		}
		return in.orZero(val, x.X.Type().Underlying().(*types.Chan).Elem())
	case token.XOR:
		if a, ok := v.(IntV); ok && a.l.isConst() {
			return IntV{in.wrap(linC(^a.l.c), x.Type())}
		}
	}
	in.unsupported("unop %v on %s", x.Op, describe(v))
	return nil
}

func (in *Interp) orZero(v Value, t types.Type) Value {
	if v == nil {
		return in.zero(t)
	}
	return v
}

// ---------------------------------------------------------------- calls

func (in *Interp) prepareCall(fr *Frame, c *ssa.CallCommon) (Value, []Value, Value) {
	args := make([]Value, 0, len(c.Args)+1)
	for _, a := range c.Args {
		args = append(args, in.get(fr, a))
	}
	if c.IsInvoke() {
		return nil, args, in.get(fr, c.Value)
	}
	return in.get(fr, c.Value), args, nil
}

func (in *Interp) invokePrepared(fnv Value, args []Value, recv Value, c *ssa.CallCommon) Value {
	if c.IsInvoke() {
		iv := recv.(IfaceV)
		if iv.t == nil {
			in.panicGo("runtime error: invalid memory address or nil pointer dereference (nil interface method call " + c.Method.Name() + ")")
		}
		fn := in.findMethod(iv.t, c.Method.Pkg(), c.Method.Name())
		if fn == nil {
			in.unsupported("method %s not found on %v", c.Method.Name(), iv.t)
		}
		return in.callFunction(fn, append([]Value{iv.v}, args...), nil)
	}
	switch f := fnv.(type) {
	case *ssa.Builtin:
		return in.builtin(f, args, c)
	case *Closure:
		if f == nil {
			in.panicGo("runtime error: invalid memory address or nil pointer dereference (nil func call)")
		}
		if f.host != nil {
			return f.host(in, args)
		}
		return in.callFunction(f.fn, args, f.fv)
	}
	in.unsupported("call of %s", describe(fnv))
	return nil
}

func (in *Interp) doCall(fr *Frame, c *ssa.CallCommon, instr ssa.Value) Value {
	fnv, args, recv := in.prepareCall(fr, c)
	return in.invokePrepared(fnv, args, recv, c)
}

func (in *Interp) builtin(b *ssa.Builtin, args []Value, c *ssa.CallCommon) Value {
	switch b.Name() {
	case "len":
		switch a := args[0].(type) {
		case StrV:
			return IntV{in.p.lenOf(a.n)}
		case SliceV:
			return mkInt(int64(a.n))
		case BytesV:
			if a.o == nil {
				return mkInt(0)
			}
			return IntV{in.p.resLin(a.n)}
		case *MapObj:
			if a == nil {
				return mkInt(0)
			}
			in.p.accessMap(in, a, false)
			return mkInt(int64(len(a.keys)))
		case *ChanObj:
			return mkInt(int64(len(a.buf)))
		case *ArrayV:
			return mkInt(int64(len(a.e)))
		case Ptr:
			if arr, ok := a.c.v.(*ArrayV); ok {
				return mkInt(int64(len(arr.e)))
			}
		}
	case "cap":
		switch a := args[0].(type) {
		case SliceV:
			return mkInt(int64(a.cap))
		case BytesV:
			if a.o == nil {
				return mkInt(0)
			}
			return IntV{in.p.lenOf(a.o.content).sub(a.off)}
		case *ChanObj:
			return mkInt(int64(a.cap))
		}
	case "append":
		return in.appendOp(args[0], args[1], c.Args[0].Type())
	case "copy":
		return in.copyOp(args[0], args[1])
	case "delete":
		m := args[0].(*MapObj)
		if m != nil {
			in.p.accessMap(in, m, true)
			in.mapDelete(m, args[1])
		}
		return nil
	case "panic":
		in.panicGo("panic: " + in.panicText(args[0]))
	case "print", "println":
		return nil
	case "recover":
		return IfaceV{}
	case "close":
		in.p.sched.closeChan(in, args[0].(*ChanObj))
		return nil
	case "min", "max":
		if len(args) == 2 {
			a, b2 := in.asLin(args[0]), in.asLin(args[1])
			less := in.p.branch("minmax", bLin(a.sub(b2), LT0))
			if (b.Name() == "min") == less {
				return IntV{a}
			}
			return IntV{b2}
		}
	}
	in.unsupported("builtin %s on %s", b.Name(), describe(args[0]))
	return nil
}

// ---------------------------------------------------------------- slices, arrays, maps

func (in *Interp) makeSlice(fr *Frame, x *ssa.MakeSlice) Value {
	ln := in.p.resLin(in.asLin(in.get(fr, x.Len)))
	cp := in.p.resLin(in.asLin(in.get(fr, x.Cap)))
	elem := x.Type().Underlying().(*types.Slice).Elem()
	if isByte(elem) {
		// negative or huge lengths panic in Go
		if in.p.branch("makeslice-neg", bLin(ln, LT0)) {
			in.panicGo("runtime error: makeslice: len out of range")
		}
		in.p.checkAlloc(in, ln)
		if ln.isConst() {
			return BytesV{o: in.newByteObj(in.zeroBytes(ln.c)), off: linC(0), n: ln}
		}
		_, hi := in.p.interval(ln)
		a := in.p.newAtom("zeros", setOf(0), 0, hi)
		in.p.assume(bLin(linV(a.lenv).sub(ln), EQ0))
		return BytesV{o: in.newByteObj(NF{{atom: a.id}}), off: linC(0), n: ln}
	}
	n := int(in.concreteInt("makeslice-len", ln))
	c := int(in.concreteInt("makeslice-cap", cp))
	if n < 0 || c < n {
		in.panicGo("runtime error: makeslice: len out of range")
	}
	a := &ArrayV{e: make([]*Cell, c)}
	for i := range a.e {
		a.e[i] = in.newCell(in.zero(elem))
	}
	return SliceV{a: a, off: 0, n: n, cap: c}
}

func (in *Interp) appendOp(dst, src Value, t types.Type) Value {
	switch d := dst.(type) {
	case BytesV:
		var add NF
		switch s := src.(type) {
		case BytesV:
			add = in.bytesContent(s)
		case StrV:
			add = s.n
		}
		base := in.bytesContent(d)
		content := nfCat(base, in.p.res(add))
		return BytesV{o: in.newByteObj(content), off: linC(0), n: in.p.lenOf(content)}
	case SliceV:
		s, _ := src.(SliceV)
		k := s.n
		if k == 0 {
			return d
		}
		if d.a != nil && d.n+k <= d.cap {
			for i := 0; i < k; i++ {
				in.store(d.a.e[d.off+d.n+i], in.copyVal(s.a.e[s.off+i].v))
			}
			return SliceV{a: d.a, off: d.off, n: d.n + k, cap: d.cap}
		}
		nc := d.cap * 2
		if nc < d.n+k {
			nc = d.n + k
		}
		elem := t.Underlying().(*types.Slice).Elem()
		a := &ArrayV{e: make([]*Cell, nc)}
		for i := 0; i < nc; i++ {
			switch {
			case i < d.n:
				a.e[i] = in.newCell(in.copyVal(d.a.e[d.off+i].v))
			case i < d.n+k:
				a.e[i] = in.newCell(in.copyVal(s.a.e[s.off+i-d.n].v))
			default:
				a.e[i] = in.newCell(in.zero(elem))
			}
		}
		return SliceV{a: a, off: 0, n: d.n + k, cap: nc}
	}
	in.unsupported("append to %s", describe(dst))
	return nil
}

// bytesContent reads the bytes of a []byte window.
func (in *Interp) bytesContent(b BytesV) NF {
	if b.o == nil {
		return NF{}
	}
	in.checkView(b.o)
	in.p.accessBytes(in, b.o, false)
	full := in.p.res(b.o.content)
	off, n := in.p.resLin(b.off), in.p.resLin(b.n)
	if off.isConst() && off.c == 0 && n.eq(in.p.lenOf(full)) {
		return full
	}
	return in.p.slice(full, off, off.add(n))
}

// checkView: reading a bufio view after a later read on the same reader yields arbitrary bytes.
func (in *Interp) checkView(o *ByteObj) {
	if o.owner != nil && o.gen != o.owner.gen {
		n := in.p.lenOf(o.content)
		lo, hi := in.p.interval(n)
		a := in.p.newAtom("stale", setAll, lo, hi)
		in.p.assume(bLin(linV(a.lenv).sub(n), EQ0))
		o.content = NF{{atom: a.id}}
		o.owner = nil
		in.p.overApprox = true
		in.p.note("read of a bufio view after a later read (contents arbitrary per the bufio contract)")
		// the path is not expanded below an over-approximated read: the contract violation is
		// recorded as a candidate (confirmed only if the native run violates an assertion)
		in.p.violate("over-approximation: a view into a bufio.Reader window (ReadLine / ReadSlice / Peek) is used after a later read on the same reader (its contents are arbitrary by the bufio contract)", nil)
		in.p.abort("end-violated", "stale bufio view")
	}
}

// bytesWrite overwrites window bytes [at, at+len(data)) of b's backing object.
func (in *Interp) bytesWrite(b BytesV, at Lin, data NF) {
	in.checkView(b.o)
	in.p.accessBytes(in, b.o, true)
	full := in.p.res(b.o.content)
	start := in.p.resLin(b.off.add(at))
	end := in.p.resLin(start.add(in.p.lenOf(data)))
	left, _ := in.p.locate(full, start)
	_, right := in.p.locate(full, end)
	b.o.content = nfCat(left, in.p.res(data), right)
}

func (in *Interp) copyOp(dst, src Value) Value {
	switch d := dst.(type) {
	case BytesV:
		var data NF
		switch s := src.(type) {
		case BytesV:
			data = in.bytesContent(s)
		case StrV:
			data = in.p.res(s.n)
		}
		if d.o == nil {
			return mkInt(0)
		}
		dn, sn := in.p.resLin(d.n), in.p.lenOf(data)
		n := sn
		if !in.p.branch("copy-fits", bLin(sn.sub(dn), LE0)) {
			n = dn
			data = in.p.slice(data, linC(0), dn)
		}
		in.bytesWrite(d, linC(0), data)
		return IntV{n}
	case SliceV:
		s := src.(SliceV)
		n := d.n
		if s.n < n {
			n = s.n
		}
		tmp := make([]Value, n)
		for i := 0; i < n; i++ {
			tmp[i] = in.copyVal(s.a.e[s.off+i].v)
		}
		for i := 0; i < n; i++ {
			in.store(d.a.e[d.off+i], tmp[i])
		}
		return mkInt(int64(n))
	}
	in.unsupported("copy into %s", describe(dst))
	return nil
}

func (in *Interp) indexAddr(fr *Frame, x *ssa.IndexAddr) Value {
	base := in.get(fr, x.X)
	idx := in.p.resLin(in.asLin(in.get(fr, x.Index)))
	switch b := base.(type) {
	case SliceV:
		i := in.boundIndex(idx, b.n)
		in.p.access(in, b.a.e[b.off+i], false)
		return Ptr{b.a.e[b.off+i]}
	case Ptr:
		if b.c == nil {
			in.panicGo("runtime error: invalid memory address or nil pointer dereference")
		}
		if arr, ok := b.c.v.(*ArrayV); ok {
			i := in.boundIndex(idx, len(arr.e))
			return Ptr{arr.e[i]}
		}
		if bv, ok := b.c.v.(BytesV); ok {
			return in.byteCellPtr(bv, idx)
		}
	case BytesV:
		return in.byteCellPtr(b, idx)
	}
	in.unsupported("IndexAddr on %s", describe(base))
	return nil
}

// byteCellPtr gives a pointer-like handle for &b[i]: a proxy cell that reads/writes through.
func (in *Interp) byteCellPtr(b BytesV, idx Lin) Value {
	in.checkIndex(idx, in.p.resLin(b.n))
	c := in.newCell(nil)
	bv := in.p.byteAt(in.bytesContent(b), idx)
	if bv.atom != 0 {
		c.v = ByteV{bv}
	} else {
		c.v = mkInt(int64(bv.c))
	}
	in.p.byteCells[c] = byteCellRef{b: b, idx: idx}
	return Ptr{c}
}

type byteCellRef struct {
	b   BytesV
	idx Lin
}

func (in *Interp) checkIndex(idx, n Lin) {
	ok := bAnd(bLin(idx.scale(-1), LE0), bLin(idx.sub(n), LT0))
	if !in.p.branch("index-bounds", ok) {
		in.panicGo("runtime error: index out of range")
	}
}

func (in *Interp) boundIndex(idx Lin, n int) int {
	if idx.isConst() {
		if idx.c < 0 || idx.c >= int64(n) {
			in.panicGo(fmt.Sprintf("runtime error: index out of range [%d] with length %d", idx.c, n))
		}
		return int(idx.c)
	}
	in.checkIndex(idx, linC(int64(n)))
	return int(in.concreteInt("index", idx))
}

func (in *Interp) index(fr *Frame, x *ssa.Index) Value {
	base := in.get(fr, x.X)
	idx := in.p.resLin(in.asLin(in.get(fr, x.Index)))
	switch b := base.(type) {
	case *ArrayV:
		return in.copyVal(b.e[in.boundIndex(idx, len(b.e))].v)
	case StrV:
		in.checkIndex(idx, in.p.lenOf(b.n))
		bv := in.p.byteAt(b.n, idx)
		if bv.atom != 0 {
			return ByteV{bv}
		}
		return mkInt(int64(bv.c))
	}
	in.unsupported("Index on %s", describe(base))
	return nil
}

func (in *Interp) sliceOp(fr *Frame, x *ssa.Slice) Value {
	base := in.get(fr, x.X)
	var lo, hi Lin
	hasLo, hasHi := x.Low != nil, x.High != nil
	if hasLo {
		lo = in.p.resLin(in.asLin(in.get(fr, x.Low)))
	} else {
		lo = linC(0)
	}
	if hasHi {
		hi = in.p.resLin(in.asLin(in.get(fr, x.High)))
	}
	if x.Max != nil {
		in.unsupported("3-index slice")
	}
	check := func(limit Lin) {
		ok := bAnd(bLin(lo.scale(-1), LE0), bLin(lo.sub(hi), LE0), bLin(hi.sub(limit), LE0))
		if !in.p.branch("slice-bounds", ok) {
			in.panicGo(fmt.Sprintf("runtime error: slice bounds out of range [%s:%s]", in.showLin(lo), in.showLin(hi)))
		}
	}
	switch b := base.(type) {
	case StrV:
		n := in.p.lenOf(b.n)
		if !hasHi {
			hi = n
		}
		check(n)
		return StrV{in.p.slice(b.n, lo, hi)}
	case BytesV:
		if b.o == nil {
			if !hasHi {
				hi = linC(0)
			}
			check(linC(0))
			return b
		}
		capL := in.p.lenOf(b.o.content).sub(b.off)
		if !hasHi {
			hi = in.p.resLin(b.n)
		}
		check(in.p.resLin(capL))
		return BytesV{o: b.o, off: in.p.resLin(b.off.add(lo)), n: in.p.resLin(hi.sub(lo))}
	case SliceV:
		if !hasHi {
			hi = linC(int64(b.n))
		}
		check(linC(int64(b.cap)))
		l := int(in.concreteInt("slice-lo", lo))
		h := int(in.concreteInt("slice-hi", hi))
		if b.a == nil {
			return SliceV{}
		}
		return SliceV{a: b.a, off: b.off + l, n: h - l, cap: b.cap - l}
	case Ptr:
		if b.c == nil {
			in.panicGo("runtime error: invalid memory address or nil pointer dereference")
		}
		switch arr := b.c.v.(type) {
		case *ArrayV:
			if !hasHi {
				hi = linC(int64(len(arr.e)))
			}
			check(linC(int64(len(arr.e))))
			l := int(in.concreteInt("slice-lo", lo))
			h := int(in.concreteInt("slice-hi", hi))
			return SliceV{a: arr, off: l, n: h - l, cap: len(arr.e) - l}
		case BytesV:
			if !hasHi {
				hi = in.p.resLin(arr.n)
			}
			check(in.p.resLin(arr.n))
			return BytesV{o: arr.o, off: in.p.resLin(arr.off.add(lo)), n: in.p.resLin(hi.sub(lo))}
		}
	}
	in.unsupported("Slice on %s", describe(base))
	return nil
}

func (in *Interp) showLin(l Lin) string {
	l = in.p.resLin(l)
	if l.isConst() {
		return fmt.Sprint(l.c)
	}
	return "sym"
}

func (in *Interp) keyEq(a, b Value) *B {
	switch x := a.(type) {
	case StrV:
		return in.p.strEq(x.n, b.(StrV).n)
	case IntV:
		return in.p.simp(bLin(x.l.sub(b.(IntV).l), EQ0))
	case BoolV:
		y := b.(BoolV)
		return in.p.simp(bOr(bAnd(x.b, y.b), bAnd(bNot(x.b), bNot(y.b))))
	case IfaceV:
		y := b.(IfaceV)
		if x.t == nil || y.t == nil {
			return bConst(x.t == nil && y.t == nil)
		}
		if !types.Identical(x.t, y.t) {
			return bFalse
		}
		return in.keyEq(x.v, y.v)
	}
	return bConst(in.sameRef(a, b))
}

func (in *Interp) mapFind(m *MapObj, key Value) int {
	for i, k := range m.keys {
		c := in.keyEq(k, key)
		if c.k == BTrue {
			return i
		}
		if c.k == BFalse {
			continue
		}
		if in.p.branch("mapkey", c) {
			return i
		}
	}
	return -1
}

func (in *Interp) mapUpdate(m *MapObj, key, val Value) {
	if i := in.mapFind(m, key); i >= 0 {
		in.store(m.vals[i], val)
		return
	}
	m.keys = append(m.keys, key)
	m.vals = append(m.vals, in.newCell(in.copyVal(val)))
}

func (in *Interp) mapDelete(m *MapObj, key Value) {
	if i := in.mapFind(m, key); i >= 0 {
		m.keys = append(m.keys[:i:i], m.keys[i+1:]...)
		m.vals = append(m.vals[:i:i], m.vals[i+1:]...)
	}
}

func (in *Interp) lookup(fr *Frame, x *ssa.Lookup) Value {
	base := in.get(fr, x.X)
	key := in.get(fr, x.Index)
	switch m := base.(type) {
	case StrV:
		idx := in.p.resLin(in.asLin(key))
		in.checkIndex(idx, in.p.lenOf(m.n))
		bv := in.p.byteAt(m.n, idx)
		if bv.atom != 0 {
			return ByteV{bv}
		}
		return mkInt(int64(bv.c))
	case *MapObj:
		vt := x.X.Type().Underlying().(*types.Map).Elem()
		var val Value
		found := false
		if m != nil {
			in.p.accessMap(in, m, false)
			if i := in.mapFind(m, key); i >= 0 {
				val, found = in.copyVal(m.vals[i].v), true
			}
		}
		if !found {
			val = in.zero(vt)
		}
		if x.CommaOk {
			return TupleV{val, mkBool(found)}
		}
		return val
	}
	in.unsupported("Lookup on %s", describe(base))
	return nil
}

type rangeIter struct {
	m    *MapObj
	keys []Value
	vals []*Cell
	i    int
	s    NF
}

func (in *Interp) rangeInit(v Value) Value {
	switch m := v.(type) {
	case *MapObj:
		it := &rangeIter{m: m}
		if m != nil {
			in.p.accessMap(in, m, false)
			it.keys = append(it.keys, m.keys...)
			it.vals = append(it.vals, m.vals...)
			if in.p.mapPerm && len(it.keys) > 1 {
				// iteration order is a decision: choose a permutation
				n := len(it.keys)
				for i := 0; i < n-1; i++ {
					j := i + in.p.choice("maporder", n-i)
					it.keys[i], it.keys[j] = it.keys[j], it.keys[i]
					it.vals[i], it.vals[j] = it.vals[j], it.vals[i]
				}
			}
		}
		return it
	case StrV:
		s := in.p.res(m.n)
		if s.isLit() {
			return &rangeIter{s: s, i: 0}
		}
	}
	in.unsupported("range over %s", describe(v))
	return nil
}

func (in *Interp) rangeNext(it *rangeIter, x *ssa.Next) Value {
	if x.IsString {
		str := it.s.litValue()
		if it.i >= len(str) {
			return TupleV{mkBool(false), mkInt(0), mkInt(0)}
		}
		for j, r := range str[it.i:] {
			_ = j
			w := len(string(r))
			if r == 0xFFFD {
				w = 1
			}
			idx := it.i
			it.i += w
			return TupleV{mkBool(true), mkInt(int64(idx)), mkInt(int64(r))}
		}
	}
	tt := x.Type().(*types.Tuple)
	for it.i < len(it.keys) {
		i := it.i
		it.i++
		// entries deleted during iteration are skipped
		live := false
		for j, c := range it.m.vals {
			if c == it.vals[i] {
				_ = j
				live = true
				break
			}
		}
		if !live {
			continue
		}
		return TupleV{mkBool(true), it.keys[i], in.copyVal(it.vals[i].v)}
	}
	return TupleV{mkBool(false), in.zeroOrNil(tt.At(1).Type()), in.zeroOrNil(tt.At(2).Type())}
}

func (in *Interp) zeroOrNil(t types.Type) Value {
	if b, ok := t.(*types.Basic); ok && b.Kind() == types.Invalid {
		return nil
	}
	return in.zero(t)
}

// ---------------------------------------------------------------- conversions, type assertions

func (in *Interp) convert(v Value, from, to types.Type) Value {
	fu, tu := from.Underlying(), to.Underlying()
	switch t := tu.(type) {
	case *types.Basic:
		switch {
		case t.Info()&types.IsString != 0:
			switch x := v.(type) {
			case StrV:
				return x
			case BytesV:
				return StrV{in.bytesContent(x)}
			case IntV:
				l := in.p.resLin(x.l)
				if l.isConst() {
					return mkStr(string(rune(l.c)))
				}
			case ByteV:
				return StrV{x.b.nf()}
			}
		case t.Info()&types.IsInteger != 0:
			switch x := v.(type) {
			case IntV:
				return IntV{in.wrap(x.l, to)}
			case ByteV:
				if t.Kind() == types.Uint8 {
					return x
				}
				return IntV{in.byteToLin(x.b)}
			case FloatV:
				if x.num.isConst() {
					return mkInt(x.num.c / x.den)
				}
				if x.den == 1 {
					return IntV{x.num}
				}
			}
		case t.Info()&types.IsFloat != 0:
			switch x := v.(type) {
			case IntV:
				return FloatV{x.l, 1}
			case FloatV:
				return x
			}
		}
	case *types.Slice:
		if isByte(t.Elem()) {
			switch x := v.(type) {
			case StrV:
				c := in.p.res(x.n)
				return BytesV{o: in.newByteObj(c), off: linC(0), n: in.p.lenOf(c)}
			case BytesV:
				return x
			}
		}
		if _, ok := fu.(*types.Slice); ok {
			return v
		}
	case *types.Pointer, *types.Signature, *types.Map, *types.Chan, *types.Struct, *types.Interface:
		return v
	}
	in.unsupported("conversion %v -> %v of %s", from, to, describe(v))
	return nil
}

func (in *Interp) typeAssert(iv IfaceV, x *ssa.TypeAssert) Value {
	ok := false
	if iv.t != nil {
		if _, isIface := x.AssertedType.Underlying().(*types.Interface); isIface {
			ok = types.AssignableTo(iv.t, x.AssertedType) || types.Implements(iv.t, x.AssertedType.Underlying().(*types.Interface))
		} else {
			ok = types.Identical(iv.t, x.AssertedType)
		}
	}
	var res Value
	if ok {
		if _, isIface := x.AssertedType.Underlying().(*types.Interface); isIface {
			res = iv
		} else {
			res = iv.v
		}
	} else {
		if !x.CommaOk {
			in.panicGo(fmt.Sprintf("interface conversion: interface is %v, not %v", iv.t, x.AssertedType))
		}
		res = in.zero(x.AssertedType)
	}
	if x.CommaOk {
		return TupleV{res, mkBool(ok)}
	}
	return res
}

// findMethod resolves a method on a dynamic type; nil if the type has no such method.
func (in *Interp) findMethod(t types.Type, pkg *types.Package, name string) *ssa.Function {
	sel := in.eng.prog.MethodSets.MethodSet(t).Lookup(pkg, name)
	if sel == nil {
		return nil
	}
	return in.eng.prog.MethodValue(sel)
}

// fakeSleep blocks the goroutine until the harness-controlled clock has advanced far enough.
func (in *Interp) fakeSleep(fn *ssa.Function, d Value) {
	g := fn.Pkg.Var("clock")
	cell := in.global(g)
	now := in.asLin(cell.v)
	wake := in.p.resLin(now.add(in.asLin(d)))
	in.p.sched.wait(in, "sleep", func() bool {
		cur := in.p.resLin(in.asLin(cell.v))
		diff := in.p.resLin(wake.sub(cur))
		if diff.isConst() {
			return diff.c <= 0
		}
		// symbolic instants: decide without forking inside the scheduler (conservative: still asleep
		// unless the interval proves the wake-up time has been reached)
		_, hi := in.p.interval(diff)
		return hi <= 0
	})
}
