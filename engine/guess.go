package main

// Witness guessing: a satisfiability question is answered "sat" without the solver when a
// concrete assignment drawn from the atoms' classes and the variables' intervals satisfies
// every constraint of the query (the assignment is the proof). "unsat" always needs the solver.

import (
	"hash/fnv"
	"strconv"
)

type rng struct{ s uint64 }

func (r *rng) next() uint64 {
	r.s ^= r.s << 13
	r.s ^= r.s >> 7
	r.s ^= r.s << 17
	return r.s
}

func (r *rng) intn(n int64) int64 {
	if n <= 0 {
		return 0
	}
	return int64(r.next() % uint64(n))
}

func classBytes(s ByteSet) []byte {
	var out []byte
	for i := 0; i < 256; i++ {
		if s.has(byte(i)) {
			out = append(out, byte(i))
		}
	}
	return out
}

// evalB evaluates a constraint under a concrete model.
func (m *Model) evalB(b *B) bool {
	switch b.k {
	case BTrue:
		return true
	case BFalse:
		return false
	case BLin:
		v := m.lin(b.lin)
		switch b.op {
		case EQ0:
			return v == 0
		case NE0:
			return v != 0
		case LT0:
			return v < 0
		case LE0:
			return v <= 0
		}
	case BStrEq:
		return m.nf(b.a) == m.nf(b.b)
	case BStrLt:
		return m.nf(b.a) < m.nf(b.b)
	case BStrLe:
		return m.nf(b.a) <= m.nf(b.b)
	case BInRe:
		return b.re.match(m.nf(b.a))
	case BNot:
		return !m.evalB(b.xs[0])
	case BAnd:
		for _, x := range b.xs {
			if !m.evalB(x) {
				return false
			}
		}
		return true
	case BOr:
		for _, x := range b.xs {
			if m.evalB(x) {
				return true
			}
		}
		return false
	}
	return false
}

// tryGuess searches a satisfying assignment for the given constraints over the given variables.
func (p *Path) tryGuess(cons []*B, atomIDs, varIDs []int, key string) map[string]string {
	for _, v := range varIDs {
		if p.ivars[v].def != nil && p.ivars[v].eval == nil {
			return nil
		}
	}
	h := fnv.New64a()
	h.Write([]byte(key))
	r := &rng{s: h.Sum64() | 1}
	tries := p.eng.cfg.guessTries
	for t := 0; t < tries; t++ {
		m := map[string]string{}
		mm := &Model{p: p, m: m}
		ok := true
		for _, id := range atomIDs {
			a := p.atoms[id]
			lv := p.ivars[a.lenv]
			lo, hi := lv.lo, lv.hi
			if _, single := a.cls.single(); hi > lo+64 && !single {
				hi = lo + 64
			} else if single {
				if lo > 1<<17 {
					return nil // too large to materialise; leave it to the solver (length-only encoding)
				}
				if hi > 1<<17 {
					hi = 1 << 17
				}
			}
			var n int64
			switch {
			case t == 0:
				n = lo
			case t == 1:
				n = hi
			case t == 2 && lo < hi:
				n = lo + 1
			default:
				n = lo + r.intn(hi-lo+1)
			}
			cb := classBytes(a.cls)
			if len(cb) == 0 {
				if lo > 0 {
					return nil
				}
				n = 0
			}
			val := ""
			for k := 0; k < 12; k++ {
				buf := make([]byte, n)
				for i := range buf {
					switch {
					case t%4 == 0 && k == 0:
						buf[i] = cb[0]
					case t%4 == 1 && k == 0:
						buf[i] = cb[len(cb)-1]
					default:
						buf[i] = cb[r.intn(int64(len(cb)))]
					}
				}
				if a.canon && n > 1 && buf[0] == '0' {
					buf[0] = '1' + byte(r.intn(9))
				}
				val = string(buf)
				good := a.re == nil || a.re.match(val)
				for _, e := range a.excl {
					if e == val {
						good = false
					}
				}
				if good {
					break
				}
				val = "\x00bad"
				if lo < hi {
					n = lo + r.intn(hi-lo+1)
				}
			}
			if val == "\x00bad" {
				ok = false
				break
			}
			m["a"+strconv.Itoa(id)] = "s" + val
		}
		if !ok {
			continue
		}
		// linked integers follow their strings; others are drawn from their intervals
		linked := map[int]bool{}
		inQuery := map[int]bool{}
		for _, id := range varIDs {
			inQuery[id] = true
		}
		for _, l := range p.links {
			if !inQuery[l.v] {
				continue
			}
			sv := mm.nf(p.res(l.s))
			if x, err := strconv.ParseInt(sv, 10, 64); err == nil {
				m["v"+strconv.Itoa(l.v)] = "i" + strconv.FormatInt(x, 10)
				linked[l.v] = true
			}
		}
		for _, id := range varIDs {
			v := p.ivars[id]
			if linked[id] || v.def != nil {
				continue
			}
			lo, hi := v.lo, v.hi
			if lo == negInf || lo < -1<<40 {
				lo = -64
				if v.hi < lo {
					lo = v.hi - 64
				}
			}
			if hi == posInf || hi > 1<<40 {
				hi = lo + 1<<16
				if v.lo > 0 && hi < v.lo {
					hi = v.lo + 1<<16
				}
			}
			var x int64
			switch t % 4 {
			case 0:
				x = lo
			case 1:
				x = hi
			default:
				x = lo + r.intn(hi-lo+1)
			}
			if x < v.lo {
				x = v.lo
			}
			if x > v.hi {
				x = v.hi
			}
			m["v"+strconv.Itoa(id)] = "i" + strconv.FormatInt(x, 10)
		}
		// defined variables
		for pass := 0; pass < 3; pass++ {
			for _, id := range varIDs {
				v := p.ivars[id]
				if v.def != nil {
					m["v"+strconv.Itoa(id)] = "i" + strconv.FormatInt(v.eval(mm), 10)
				}
			}
		}
		// bounds of defined / linked variables and length bounds of bound parents
		for _, id := range varIDs {
			v := p.ivars[id]
			x := mm.ivar(id)
			if x < v.lo || x > v.hi {
				ok = false
				break
			}
		}
		if !ok {
			continue
		}
		for _, c := range cons {
			if !mm.evalB(c) {
				ok = false
				break
			}
		}
		if ok {
			return m
		}
	}
	return nil
}
