package main

// Interpreter values. Memory is concrete in shape (cells, structs, arrays, maps as association
// lists) and symbolic in content (Lin integers, *B booleans, NF strings, byte buffers).

import (
	"fmt"
	"go/types"

	"golang.org/x/tools/go/ssa"
)

type Value interface{}

type IntV struct{ l Lin }
type BoolV struct{ b *B }
type StrV struct{ n NF }
type ByteV struct{ b byteVal } // symbolic single byte (1-byte atom)
type FloatV struct {
	num Lin
	den int64
}

type Cell struct {
	v  Value
	id int
}

type Ptr struct{ c *Cell }

type StructV struct{ f []*Cell }
type ArrayV struct{ e []*Cell }

type SliceV struct {
	a           *ArrayV
	off, n, cap int
}

// ByteObj is the backing store of a []byte: content in normal form.
type ByteObj struct {
	content NF
	id      int
	// bufio view bookkeeping: a view is valid while gen == owner.gen
	owner *BufReader
	gen   int
}

type BytesV struct {
	o      *ByteObj
	off, n Lin // window [off, off+n)
}

type MapObj struct {
	keys []Value
	vals []*Cell
	id   int
}

type IfaceV struct {
	t types.Type
	v Value
}

type Closure struct {
	fn *ssa.Function
	fv []Value
	// intrinsic: host-implemented function value
	host func(in *Interp, args []Value) Value
	name string
}

type TupleV []Value

type ChanObj struct {
	buf    []Value
	cap    int
	closed bool
	id     int
	tokens []int
	// vector clocks of pending sends (race monitor)
	clocks     []VC
	clocksFull []VC
}

// Opaque host objects (bytes.Buffer, bufio.Reader, regexp, ...) live in cells as *HostObj.
type HostObj struct {
	kind string
	v    interface{}
}

func mkInt(c int64) IntV    { return IntV{linC(c)} }
func mkBool(b bool) BoolV   { return BoolV{bConst(b)} }
func mkStr(s string) StrV   { return StrV{nfLit(s)} }
func nilIface() IfaceV      { return IfaceV{} }

func (in *Interp) newCell(v Value) *Cell {
	in.p.heapID++
	return &Cell{v: v, id: in.p.heapID}
}

// zero returns the zero value of a type.
func (in *Interp) zero(t types.Type) Value {
	switch u := t.Underlying().(type) {
	case *types.Basic:
		switch {
		case u.Info()&types.IsBoolean != 0:
			return mkBool(false)
		case u.Info()&types.IsString != 0:
			return StrV{NF{}}
		case u.Info()&types.IsFloat != 0:
			return FloatV{linC(0), 1}
		case u.Kind() == types.UnsafePointer:
			return Ptr{}
		default:
			return mkInt(0)
		}
	case *types.Pointer:
		return Ptr{}
	case *types.Struct:
		s := &StructV{f: make([]*Cell, u.NumFields())}
		for i := range s.f {
			s.f[i] = in.newCell(in.zero(u.Field(i).Type()))
		}
		return s
	case *types.Array:
		if isByte(u.Elem()) {
			// byte arrays are byte buffers
			o := in.newByteObj(in.zeroBytes(u.Len()))
			return BytesV{o: o, off: linC(0), n: linC(u.Len())}
		}
		a := &ArrayV{e: make([]*Cell, u.Len())}
		for i := range a.e {
			a.e[i] = in.newCell(in.zero(u.Elem()))
		}
		return a
	case *types.Slice:
		if isByte(u.Elem()) {
			return BytesV{}
		}
		return SliceV{}
	case *types.Map:
		return (*MapObj)(nil)
	case *types.Interface:
		return IfaceV{}
	case *types.Signature:
		return (*Closure)(nil)
	case *types.Chan:
		return (*ChanObj)(nil)
	case *types.Tuple:
		t := make(TupleV, u.Len())
		for i := range t {
			t[i] = in.zero(u.At(i).Type())
		}
		return t
	}
	panic(fmt.Sprintf("zero: unsupported type %v", t))
}

func isByte(t types.Type) bool {
	b, ok := t.Underlying().(*types.Basic)
	return ok && (b.Kind() == types.Uint8 || b.Kind() == types.Byte)
}

func isByteSlice(t types.Type) bool {
	s, ok := t.Underlying().(*types.Slice)
	return ok && isByte(s.Elem())
}

func (in *Interp) zeroBytes(n int64) NF {
	if n == 0 {
		return NF{}
	}
	if n <= 64 {
		return nfLit(string(make([]byte, n)))
	}
	a := in.p.newAtom("zeros", setOf(0), n, n)
	return NF{{atom: a.id}}
}

func (in *Interp) newByteObj(content NF) *ByteObj {
	in.p.heapID++
	return &ByteObj{content: content, id: in.p.heapID}
}

// copyVal implements value semantics for aggregates.
func (in *Interp) copyVal(v Value) Value {
	switch x := v.(type) {
	case *StructV:
		s := &StructV{f: make([]*Cell, len(x.f))}
		for i, c := range x.f {
			s.f[i] = in.newCell(in.copyVal(c.v))
		}
		return s
	case *ArrayV:
		a := &ArrayV{e: make([]*Cell, len(x.e))}
		for i, c := range x.e {
			a.e[i] = in.newCell(in.copyVal(c.v))
		}
		return a
	case TupleV:
		t := make(TupleV, len(x))
		copy(t, x)
		return t
	}
	return v
}

// store writes v into a cell, keeping the identity of nested field cells.
func (in *Interp) store(c *Cell, v Value) {
	switch x := v.(type) {
	case *StructV:
		if old, ok := c.v.(*StructV); ok && len(old.f) == len(x.f) {
			for i := range x.f {
				in.store(old.f[i], x.f[i].v)
			}
			return
		}
		c.v = in.copyVal(v)
		return
	case *ArrayV:
		if old, ok := c.v.(*ArrayV); ok && len(old.e) == len(x.e) {
			for i := range x.e {
				in.store(old.e[i], x.e[i].v)
			}
			return
		}
		c.v = in.copyVal(v)
		return
	}
	c.v = v
}

func (in *Interp) load(c *Cell) Value { return in.copyVal(c.v) }

func describe(v Value) string {
	switch x := v.(type) {
	case IntV:
		return "int:" + x.l.String()
	case StrV:
		return fmt.Sprintf("str:%v", x.n)
	case BoolV:
		return fmt.Sprintf("bool:%d", x.b.k)
	case nil:
		return "nil"
	}
	return fmt.Sprintf("%T", v)
}
