package main

// Models of standard-library and third-party functions on symbolic values.

import (
	"crypto/md5"
	"crypto/sha1"
	"crypto/sha256"
	"encoding/hex"
	"fmt"
	"go/types"
	"net/url"
	"reflect"
	"regexp"
	"strconv"
	"strings"

	"golang.org/x/tools/go/ssa"
)

type intrinsic func(in *Interp, fn *ssa.Function, args []Value) Value

var intrinsics map[string]intrinsic

func nfOf(v Value) NF { return v.(StrV).n }

func (in *Interp) litArg(v Value, what string) string {
	n := in.p.res(nfOf(v))
	if !n.isLit() {
		in.unsupported("%s must be concrete", what)
	}
	return n.litValue()
}

// strSlice builds a []string value.
func (in *Interp) strSlice(parts []NF) Value {
	a := &ArrayV{e: make([]*Cell, len(parts))}
	for i, p := range parts {
		a.e[i] = in.newCell(StrV{p})
	}
	return SliceV{a: a, off: 0, n: len(parts), cap: len(parts)}
}

func (in *Interp) sliceStrs(v Value) []NF {
	s := v.(SliceV)
	out := make([]NF, s.n)
	for i := 0; i < s.n; i++ {
		out[i] = nfOf(s.a.e[s.off+i].v)
	}
	return out
}

// mkErr builds an error value of dynamic type *errors.errorString.
func (in *Interp) mkErr(msg NF) Value {
	t := in.eng.errorStringType
	st := in.zero(t.Underlying()).(*StructV)
	st.f[0].v = StrV{msg}
	return IfaceV{t: types.NewPointer(t), v: Ptr{in.newCell(st)}}
}

func (in *Interp) mkErrS(s string) Value { return in.mkErr(nfLit(s)) }

func singleByteSet(in *Interp, v Value, what string) (ByteSet, bool) {
	s := in.litArg(v, what)
	if len(s) != 1 {
		return ByteSet{}, false
	}
	return setOf(s[0]), true
}

func init() {
	intrinsics = map[string]intrinsic{
		// ---------------------------------------------------------------- strings
		"strings.IndexByte": func(in *Interp, fn *ssa.Function, a []Value) Value {
			l := in.p.resLin(in.asLin(a[1]))
			if !l.isConst() {
				in.unsupported("IndexByte with symbolic byte")
			}
			idx, _ := in.p.indexSet(nfOf(a[0]), setOf(byte(l.c)))
			return IntV{idx}
		},
		"strings.Index": func(in *Interp, fn *ssa.Function, a []Value) Value {
			sep := in.litArg(a[1], "Index separator")
			if len(sep) == 1 {
				idx, _ := in.p.indexSet(nfOf(a[0]), setOf(sep[0]))
				return IntV{idx}
			}
			s := in.p.res(nfOf(a[0]))
			if s.isLit() {
				return mkInt(int64(strings.Index(s.litValue(), sep)))
			}
			return IntV{in.indexMulti(s, sep)}
		},
		"strings.LastIndex": func(in *Interp, fn *ssa.Function, a []Value) Value {
			sep := in.litArg(a[1], "LastIndex separator")
			if len(sep) == 1 {
				idx, _ := in.p.lastIndexSet(nfOf(a[0]), setOf(sep[0]))
				return IntV{idx}
			}
			s := in.p.res(nfOf(a[0]))
			if s.isLit() {
				return mkInt(int64(strings.LastIndex(s.litValue(), sep)))
			}
			in.unsupported("LastIndex with multi-byte separator on symbolic string")
			return nil
		},
		"strings.LastIndexByte": func(in *Interp, fn *ssa.Function, a []Value) Value {
			l := in.p.resLin(in.asLin(a[1]))
			idx, _ := in.p.lastIndexSet(nfOf(a[0]), setOf(byte(l.c)))
			return IntV{idx}
		},
		"strings.IndexAny": func(in *Interp, fn *ssa.Function, a []Value) Value {
			idx, _ := in.p.indexSet(nfOf(a[0]), setStr(in.litArg(a[1], "IndexAny chars")))
			return IntV{idx}
		},
		"strings.ContainsAny": func(in *Interp, fn *ssa.Function, a []Value) Value {
			_, found := in.p.indexSet(nfOf(a[0]), setStr(in.litArg(a[1], "ContainsAny chars")))
			return mkBool(found)
		},
		"strings.ContainsRune": func(in *Interp, fn *ssa.Function, a []Value) Value {
			l := in.p.resLin(in.asLin(a[1]))
			if !l.isConst() || l.c >= 0x80 {
				in.unsupported("ContainsRune with non-ASCII or symbolic rune")
			}
			_, found := in.p.indexSet(nfOf(a[0]), setOf(byte(l.c)))
			return mkBool(found)
		},
		"strings.Contains": func(in *Interp, fn *ssa.Function, a []Value) Value {
			sep := in.litArg(a[1], "Contains substring")
			if len(sep) == 1 {
				_, found := in.p.indexSet(nfOf(a[0]), setOf(sep[0]))
				return mkBool(found)
			}
			s := in.p.res(nfOf(a[0]))
			if s.isLit() {
				return mkBool(strings.Contains(s.litValue(), sep))
			}
			idx := in.indexMulti(s, sep)
			return mkBool(!(idx.isConst() && idx.c == -1))
		},
		"strings.Split": func(in *Interp, fn *ssa.Function, a []Value) Value {
			sep := in.litArg(a[1], "Split separator")
			if len(sep) == 1 {
				return in.strSlice(in.p.split(nfOf(a[0]), sep[0]))
			}
			s := in.p.res(nfOf(a[0]))
			if s.isLit() {
				var parts []NF
				for _, x := range strings.Split(s.litValue(), sep) {
					parts = append(parts, nfLit(x))
				}
				return in.strSlice(parts)
			}
			var parts []NF
			for n := 0; ; n++ {
				if n > in.eng.cfg.maxPieces {
					in.p.abort("unwind", "Split produced more pieces than the bound")
				}
				idx := in.indexMulti(s, sep)
				if idx.isConst() && idx.c == -1 {
					parts = append(parts, s)
					break
				}
				l, r := in.p.locate(s, idx)
				parts = append(parts, l)
				_, s = in.p.locate(r, linC(int64(len(sep))))
				s = in.p.res(s)
			}
			return in.strSlice(parts)
		},
		"strings.SplitN": func(in *Interp, fn *ssa.Function, a []Value) Value {
			sep := in.litArg(a[1], "SplitN separator")
			n := in.concreteInt("SplitN n", in.asLin(a[2]))
			if len(sep) != 1 || n < 0 {
				s := in.p.res(nfOf(a[0]))
				if s.isLit() {
					var parts []NF
					for _, x := range strings.SplitN(s.litValue(), sep, int(n)) {
						parts = append(parts, nfLit(x))
					}
					return in.strSlice(parts)
				}
				if n < 0 && len(sep) == 1 {
					return in.strSlice(in.p.split(nfOf(a[0]), sep[0]))
				}
				in.unsupported("SplitN with multi-byte separator on symbolic string")
			}
			if n == 0 {
				return SliceV{}
			}
			var parts []NF
			s := nfOf(a[0])
			for int64(len(parts)) < n-1 {
				before, _, after, found := in.p.splitFirst(s, setOf(sep[0]))
				if !found {
					break
				}
				parts = append(parts, before)
				s = after
			}
			parts = append(parts, in.p.res(s))
			return in.strSlice(parts)
		},
		"strings.Cut": func(in *Interp, fn *ssa.Function, a []Value) Value {
			sep := in.litArg(a[1], "Cut separator")
			if len(sep) != 1 {
				in.unsupported("Cut with multi-byte separator")
			}
			before, _, after, found := in.p.splitFirst(nfOf(a[0]), setOf(sep[0]))
			if !found {
				return TupleV{StrV{before}, StrV{NF{}}, mkBool(false)}
			}
			return TupleV{StrV{before}, StrV{after}, mkBool(true)}
		},
		"strings.Fields": func(in *Interp, fn *ssa.Function, a []Value) Value {
			return in.strSlice(in.p.fields(nfOf(a[0])))
		},
		"strings.TrimSpace": func(in *Interp, fn *ssa.Function, a []Value) Value {
			return StrV{in.p.trimSpace(nfOf(a[0]))}
		},
		"strings.TrimPrefix": func(in *Interp, fn *ssa.Function, a []Value) Value {
			pre := in.litArg(a[1], "TrimPrefix prefix")
			if in.p.branch("trimprefix", in.p.hasPrefix(nfOf(a[0]), pre)) {
				_, r := in.p.locate(nfOf(a[0]), linC(int64(len(pre))))
				return StrV{in.p.res(r)}
			}
			return a[0]
		},
		"strings.TrimSuffix": func(in *Interp, fn *ssa.Function, a []Value) Value {
			suf := in.litArg(a[1], "TrimSuffix suffix")
			if in.p.branch("trimsuffix", in.p.hasSuffix(nfOf(a[0]), suf)) {
				l, _ := in.p.locate(nfOf(a[0]), in.p.lenOf(nfOf(a[0])).addC(-int64(len(suf))))
				return StrV{in.p.res(l)}
			}
			return a[0]
		},
		"strings.HasPrefix": func(in *Interp, fn *ssa.Function, a []Value) Value {
			pre := in.p.res(nfOf(a[1]))
			if !pre.isLit() {
				s := in.p.res(nfOf(a[0]))
				if in.p.branch("hasprefix-len", bLin(in.p.lenOf(pre).sub(in.p.lenOf(s)), LE0)) {
					l, _ := in.p.locate(s, in.p.lenOf(pre))
					return BoolV{in.p.strEq(l, pre)}
				}
				return mkBool(false)
			}
			return BoolV{in.p.hasPrefix(nfOf(a[0]), pre.litValue())}
		},
		"strings.HasSuffix": func(in *Interp, fn *ssa.Function, a []Value) Value {
			suf := in.p.res(nfOf(a[1]))
			if !suf.isLit() {
				s := in.p.res(nfOf(a[0]))
				if in.p.branch("hassuffix-len", bLin(in.p.lenOf(suf).sub(in.p.lenOf(s)), LE0)) {
					_, r := in.p.locate(s, in.p.lenOf(s).sub(in.p.lenOf(suf)))
					return BoolV{in.p.strEq(r, suf)}
				}
				return mkBool(false)
			}
			return BoolV{in.p.hasSuffix(nfOf(a[0]), suf.litValue())}
		},
		"strings.EqualFold": func(in *Interp, fn *ssa.Function, a []Value) Value {
			x, y := in.p.res(nfOf(a[0])), in.p.res(nfOf(a[1]))
			if y.isLit() {
				return BoolV{in.p.equalFold(x, y.litValue())}
			}
			if x.isLit() {
				return BoolV{in.p.equalFold(y, x.litValue())}
			}
			if in.p.strEq(x, y).k == BTrue {
				return mkBool(true)
			}
			in.unsupported("EqualFold of two symbolic strings")
			return nil
		},
		"strings.ToLower": func(in *Interp, fn *ssa.Function, a []Value) Value {
			return StrV{in.caseMap(nfOf(a[0]), false)}
		},
		"strings.ToUpper": func(in *Interp, fn *ssa.Function, a []Value) Value {
			return StrV{in.caseMap(nfOf(a[0]), true)}
		},
		"strings.Join": func(in *Interp, fn *ssa.Function, a []Value) Value {
			parts := in.sliceStrs(a[0])
			sep := nfOf(a[1])
			var out NF
			for i, p := range parts {
				if i > 0 {
					out = nfCat(out, sep)
				}
				out = nfCat(out, in.p.res(p))
			}
			if out == nil {
				out = NF{}
			}
			return StrV{out}
		},
		"strings.Replace": func(in *Interp, fn *ssa.Function, a []Value) Value {
			return in.replace(a[0], a[1], a[2], in.concreteInt("Replace n", in.asLin(a[3])))
		},
		"strings.ReplaceAll": func(in *Interp, fn *ssa.Function, a []Value) Value {
			return in.replace(a[0], a[1], a[2], -1)
		},
		"strings.Repeat": func(in *Interp, fn *ssa.Function, a []Value) Value {
			n := in.concreteInt("Repeat n", in.asLin(a[1]))
			var out NF = NF{}
			for i := int64(0); i < n; i++ {
				out = nfCat(out, in.p.res(nfOf(a[0])))
			}
			return StrV{out}
		},
		"strings.Count": func(in *Interp, fn *ssa.Function, a []Value) Value {
			sep := in.litArg(a[1], "Count substring")
			s := in.p.res(nfOf(a[0]))
			if s.isLit() {
				return mkInt(int64(strings.Count(s.litValue(), sep)))
			}
			if len(sep) != 1 {
				in.unsupported("Count with multi-byte substring on symbolic string")
			}
			n := int64(0)
			for {
				if n > int64(in.eng.cfg.maxPieces) {
					in.p.abort("unwind", "Count exceeded the bound")
				}
				_, _, after, found := in.p.splitFirst(s, setOf(sep[0]))
				if !found {
					return mkInt(n)
				}
				n++
				s = after
			}
		},
		"strings.TrimLeft": func(in *Interp, fn *ssa.Function, a []Value) Value {
			return StrV{in.trimSet(nfOf(a[0]), setStr(in.litArg(a[1], "cutset")), true, false)}
		},
		"strings.TrimRight": func(in *Interp, fn *ssa.Function, a []Value) Value {
			return StrV{in.trimSet(nfOf(a[0]), setStr(in.litArg(a[1], "cutset")), false, true)}
		},
		"strings.Trim": func(in *Interp, fn *ssa.Function, a []Value) Value {
			return StrV{in.trimSet(nfOf(a[0]), setStr(in.litArg(a[1], "cutset")), true, true)}
		},
		"bytes.Join": func(in *Interp, fn *ssa.Function, a []Value) Value {
			parts := a[0].(SliceV)
			sep := in.bytesContent(a[1].(BytesV))
			var out NF = NF{}
			for i := 0; i < parts.n; i++ {
				if i > 0 {
					out = nfCat(out, sep)
				}
				out = nfCat(out, in.bytesContent(parts.a.e[parts.off+i].v.(BytesV)))
			}
			return BytesV{o: in.newByteObj(out), off: linC(0), n: in.p.lenOf(out)}
		},
		"bytes.TrimSpace": func(in *Interp, fn *ssa.Function, a []Value) Value {
			c := in.p.trimSpace(in.bytesContent(a[0].(BytesV)))
			return BytesV{o: in.newByteObj(c), off: linC(0), n: in.p.lenOf(c)}
		},
		"bytes.HasPrefix": func(in *Interp, fn *ssa.Function, a []Value) Value {
			pre := in.p.res(in.bytesContent(a[1].(BytesV)))
			if !pre.isLit() {
				in.unsupported("bytes.HasPrefix with symbolic prefix")
			}
			return BoolV{in.p.hasPrefix(in.bytesContent(a[0].(BytesV)), pre.litValue())}
		},
		"bytes.HasSuffix": func(in *Interp, fn *ssa.Function, a []Value) Value {
			suf := in.p.res(in.bytesContent(a[1].(BytesV)))
			if !suf.isLit() {
				in.unsupported("bytes.HasSuffix with symbolic suffix")
			}
			return BoolV{in.p.hasSuffix(in.bytesContent(a[0].(BytesV)), suf.litValue())}
		},
		"bytes.IndexByte": func(in *Interp, fn *ssa.Function, a []Value) Value {
			l := in.p.resLin(in.asLin(a[1]))
			if !l.isConst() {
				in.unsupported("IndexByte with symbolic byte")
			}
			idx, _ := in.p.indexSet(in.bytesContent(a[0].(BytesV)), setOf(byte(l.c)))
			return IntV{idx}
		},
		"bytes.Contains": func(in *Interp, fn *ssa.Function, a []Value) Value {
			sub := in.p.res(in.bytesContent(a[1].(BytesV)))
			if !sub.isLit() || len(sub.litValue()) != 1 {
				in.unsupported("bytes.Contains with symbolic or multi-byte pattern")
			}
			_, found := in.p.indexSet(in.bytesContent(a[0].(BytesV)), setOf(sub.litValue()[0]))
			return mkBool(found)
		},
		"strings.Map": stringsMap,
		"strings.Compare": func(in *Interp, fn *ssa.Function, a []Value) Value {
			x, y := nfOf(a[0]), nfOf(a[1])
			if in.p.branch("compare-eq", in.p.strEq(x, y)) {
				return mkInt(0)
			}
			if in.p.branch("compare-lt", in.p.simp(&B{k: BStrLt, a: x, b: y})) {
				return mkInt(-1)
			}
			return mkInt(1)
		},
		"strings.NewReader": func(in *Interp, fn *ssa.Function, a []Value) Value {
			return Ptr{in.newCell(&HostObj{kind: "membuf", v: &memBuf{data: in.p.res(nfOf(a[0]))}})}
		},
		"sort.Strings": func(in *Interp, fn *ssa.Function, a []Value) Value {
			s := a[0].(SliceV)
			// insertion sort; comparisons on symbolic strings fork
			for i := 1; i < s.n; i++ {
				for j := i; j > 0; j-- {
					x, y := s.a.e[s.off+j-1], s.a.e[s.off+j]
					if !in.p.branch("sort-less", in.p.simp(&B{k: BStrLt, a: nfOf(y.v), b: nfOf(x.v)})) {
						break
					}
					x.v, y.v = y.v, x.v
				}
			}
			return nil
		},
		"sort.Slice":       sortSliceModel,
		"sort.SliceStable": sortSliceModel,
		// ---------------------------------------------------------------- strconv
		"strconv.ParseBool": func(in *Interp, fn *ssa.Function, a []Value) Value {
			x := nfOf(a[0])
			for _, w := range []string{"1", "t", "T", "TRUE", "true", "True"} {
				if in.p.branch("parsebool-true", in.p.strEq(x, nfLit(w))) {
					return TupleV{mkBool(true), IfaceV{}}
				}
			}
			for _, w := range []string{"0", "f", "F", "FALSE", "false", "False"} {
				if in.p.branch("parsebool-false", in.p.strEq(x, nfLit(w))) {
					return TupleV{mkBool(false), IfaceV{}}
				}
			}
			return TupleV{mkBool(false), in.mkErr(nfCat(nfLit("strconv.ParseBool: parsing "), in.quoteApprox(x), nfLit(": invalid syntax")))}
		},
		"strconv.Atoi": func(in *Interp, fn *ssa.Function, a []Value) Value {
			v, ok := in.p.atoi(nfOf(a[0]))
			if !ok {
				return TupleV{mkInt(0), in.mkErr(nfCat(nfLit("strconv.Atoi: parsing "), in.quoteApprox(nfOf(a[0])), nfLit(": invalid syntax")))}
			}
			return TupleV{IntV{v}, IfaceV{}}
		},
		"strconv.Itoa": func(in *Interp, fn *ssa.Function, a []Value) Value {
			return StrV{in.p.itoa(in.asLin(a[0]))}
		},
		"strconv.FormatInt": func(in *Interp, fn *ssa.Function, a []Value) Value {
			if b := in.p.resLin(in.asLin(a[1])); !b.isConst() || b.c != 10 {
				in.unsupported("FormatInt base != 10")
			}
			return StrV{in.p.itoa(in.asLin(a[0]))}
		},
		// ---------------------------------------------------------------- errors / fmt
		"errors.New": func(in *Interp, fn *ssa.Function, a []Value) Value { return in.mkErr(nfOf(a[0])) },
		"fmt.Errorf": func(in *Interp, fn *ssa.Function, a []Value) Value {
			return in.mkErr(in.format(nfOf(a[0]), a[1]))
		},
		"fmt.Sprintf": func(in *Interp, fn *ssa.Function, a []Value) Value {
			return StrV{in.format(nfOf(a[0]), a[1])}
		},
		"fmt.Sprint": func(in *Interp, fn *ssa.Function, a []Value) Value {
			return StrV{in.sprint(a[0])}
		},
		"fmt.Fprintf": func(in *Interp, fn *ssa.Function, a []Value) Value {
			return in.writeTo(a[0], in.format(nfOf(a[1]), a[2]))
		},
		"fmt.Fprint": func(in *Interp, fn *ssa.Function, a []Value) Value {
			return in.writeTo(a[0], in.sprint(a[1]))
		},
		"fmt.Println": func(in *Interp, fn *ssa.Function, a []Value) Value { return TupleV{mkInt(0), IfaceV{}} },
		"fmt.Printf":  func(in *Interp, fn *ssa.Function, a []Value) Value { return TupleV{mkInt(0), IfaceV{}} },
		"fmt.Print":   func(in *Interp, fn *ssa.Function, a []Value) Value { return TupleV{mkInt(0), IfaceV{}} },
		"io.WriteString": func(in *Interp, fn *ssa.Function, a []Value) Value {
			return in.writeTo(a[0], nfOf(a[1]))
		},
		// ---------------------------------------------------------------- bytes.Buffer
		"bytes.NewBuffer": func(in *Interp, fn *ssa.Function, a []Value) Value {
			return Ptr{in.newCell(&HostObj{kind: "membuf", v: &memBuf{data: in.bytesContent(a[0].(BytesV)), src: a[0].(BytesV).o}})}
		},
		"bytes.NewBufferString": func(in *Interp, fn *ssa.Function, a []Value) Value {
			return Ptr{in.newCell(&HostObj{kind: "membuf", v: &memBuf{data: in.p.res(nfOf(a[0]))}})}
		},
		"bytes.NewReader": func(in *Interp, fn *ssa.Function, a []Value) Value {
			return Ptr{in.newCell(&HostObj{kind: "membuf", v: &memBuf{data: in.bytesContent(a[0].(BytesV)), src: a[0].(BytesV).o}})}
		},
		"(*bytes.Buffer).Write": func(in *Interp, fn *ssa.Function, a []Value) Value {
			mb := in.memBufOf(a[0])
			d := in.bytesContent(a[1].(BytesV))
			mb.data = nfCat(mb.data, d)
			return TupleV{IntV{in.p.lenOf(d)}, IfaceV{}}
		},
		"(*bytes.Buffer).WriteString": func(in *Interp, fn *ssa.Function, a []Value) Value {
			mb := in.memBufOf(a[0])
			d := in.p.res(nfOf(a[1]))
			mb.data = nfCat(mb.data, d)
			return TupleV{IntV{in.p.lenOf(d)}, IfaceV{}}
		},
		"(*bytes.Buffer).WriteByte": func(in *Interp, fn *ssa.Function, a []Value) Value {
			mb := in.memBufOf(a[0])
			mb.data = nfCat(mb.data, in.byteNF(a[1]))
			return IfaceV{}
		},
		"(*bytes.Buffer).String": func(in *Interp, fn *ssa.Function, a []Value) Value {
			if p := a[0].(Ptr); p.c == nil {
				return mkStr("<nil>")
			}
			return StrV{in.p.res(in.memBufOf(a[0]).data)}
		},
		"(*bytes.Buffer).Bytes": func(in *Interp, fn *ssa.Function, a []Value) Value {
			d := in.p.res(in.memBufOf(a[0]).data)
			return BytesV{o: in.newByteObj(d), off: linC(0), n: in.p.lenOf(d)}
		},
		"(*bytes.Buffer).Len": func(in *Interp, fn *ssa.Function, a []Value) Value {
			return IntV{in.p.lenOf(in.memBufOf(a[0]).data)}
		},
		"(*bytes.Buffer).Reset": func(in *Interp, fn *ssa.Function, a []Value) Value {
			in.memBufOf(a[0]).data = NF{}
			return nil
		},
		"(*bytes.Reader).Reset": func(in *Interp, fn *ssa.Function, a []Value) Value {
			mb := in.memBufOf(a[0])
			b := a[1].(BytesV)
			mb.data, mb.src = in.bytesContent(b), b.o
			return nil
		},
		"(*bytes.Reader).Len": func(in *Interp, fn *ssa.Function, a []Value) Value {
			return IntV{in.p.lenOf(in.memBufOf(a[0]).data)}
		},
		"(*bufio.Reader).Reset": func(in *Interp, fn *ssa.Function, a []Value) Value {
			r := in.bufReaderOf(a[0])
			r.src, r.buffered, r.err, r.lastByte = a[1].(IfaceV), NF{}, nil, nil
			r.gen++ // views handed out before are gone
			return nil
		},
		"(*bytes.Buffer).Read":    memRead,
		"(*bytes.Reader).Read":    memRead,
		"(*strings.Reader).Read":  memRead,
		"(*strings.Builder).WriteString": func(in *Interp, fn *ssa.Function, a []Value) Value {
			mb := in.memBufOf(a[0])
			d := in.p.res(nfOf(a[1]))
			mb.data = nfCat(mb.data, d)
			return TupleV{IntV{in.p.lenOf(d)}, IfaceV{}}
		},
		"(*strings.Builder).WriteByte": func(in *Interp, fn *ssa.Function, a []Value) Value {
			mb := in.memBufOf(a[0])
			mb.data = nfCat(mb.data, in.byteNF(a[1]))
			return IfaceV{}
		},
		"(*strings.Builder).Write": func(in *Interp, fn *ssa.Function, a []Value) Value {
			mb := in.memBufOf(a[0])
			d := in.bytesContent(a[1].(BytesV))
			mb.data = nfCat(mb.data, d)
			return TupleV{IntV{in.p.lenOf(d)}, IfaceV{}}
		},
		"(*strings.Builder).String": func(in *Interp, fn *ssa.Function, a []Value) Value {
			return StrV{in.p.res(in.memBufOf(a[0]).data)}
		},
		"(*strings.Builder).Len": func(in *Interp, fn *ssa.Function, a []Value) Value {
			return IntV{in.p.lenOf(in.memBufOf(a[0]).data)}
		},
		"bytes.Equal": func(in *Interp, fn *ssa.Function, a []Value) Value {
			return BoolV{in.p.strEq(in.bytesContent(a[0].(BytesV)), in.bytesContent(a[1].(BytesV)))}
		},
		// ---------------------------------------------------------------- bufio / io
		"bufio.NewReader": func(in *Interp, fn *ssa.Function, a []Value) Value {
			return in.newBufReader(a[0].(IfaceV), linC(4096))
		},
		"bufio.NewReaderSize": func(in *Interp, fn *ssa.Function, a []Value) Value {
			size := in.p.resLin(in.asLin(a[1]))
			// bufio enforces a minimum size of 16
			if in.p.branch("bufio-minsize", bLin(size.addC(-16), LT0)) {
				size = linC(16)
			}
			return in.newBufReader(a[0].(IfaceV), size)
		},
		"(*bufio.Reader).ReadLine":   func(in *Interp, fn *ssa.Function, a []Value) Value { return in.bufReaderOf(a[0]).readLine(in) },
		"(*bufio.Reader).ReadByte":   func(in *Interp, fn *ssa.Function, a []Value) Value { return in.bufReaderOf(a[0]).readByte(in) },
		"(*bufio.Reader).UnreadByte": func(in *Interp, fn *ssa.Function, a []Value) Value { return in.bufReaderOf(a[0]).unreadByte(in) },
		"(*bufio.Reader).Read": func(in *Interp, fn *ssa.Function, a []Value) Value {
			return in.bufReaderOf(a[0]).read(in, a[1].(BytesV))
		},
		"(*bufio.Reader).Buffered": func(in *Interp, fn *ssa.Function, a []Value) Value {
			return IntV{in.p.lenOf(in.bufReaderOf(a[0]).buffered)}
		},
		"(*bufio.Reader).Size": func(in *Interp, fn *ssa.Function, a []Value) Value {
			return IntV{in.bufReaderOf(a[0]).size}
		},
		"(*bufio.Reader).Peek": func(in *Interp, fn *ssa.Function, a []Value) Value {
			return in.bufReaderOf(a[0]).peek(in, in.p.resLin(in.asLin(a[1])))
		},
		"(*bufio.Reader).Discard": func(in *Interp, fn *ssa.Function, a []Value) Value {
			return in.bufReaderOf(a[0]).discard(in, in.p.resLin(in.asLin(a[1])))
		},
		"(*bufio.Reader).ReadString": func(in *Interp, fn *ssa.Function, a []Value) Value {
			r := in.bufReaderOf(a[0])
			d := in.p.resLin(in.asLin(a[1]))
			if !d.isConst() {
				in.unsupported("ReadString with symbolic delimiter")
			}
			data, err := r.readUntil(in, byte(d.c))
			return TupleV{StrV{data}, err}
		},
		"(*bufio.Reader).ReadBytes": func(in *Interp, fn *ssa.Function, a []Value) Value {
			r := in.bufReaderOf(a[0])
			d := in.p.resLin(in.asLin(a[1]))
			if !d.isConst() {
				in.unsupported("ReadBytes with symbolic delimiter")
			}
			data, err := r.readUntil(in, byte(d.c))
			return TupleV{BytesV{o: in.newByteObj(data), off: linC(0), n: in.p.lenOf(data)}, err}
		},
		"io.LimitReader": func(in *Interp, fn *ssa.Function, a []Value) Value {
			t := fn.Signature.Results().At(0).Type() // io.Reader
			_ = t
			lr := in.eng.pkgs["io"].Type("LimitedReader").Type()
			st := in.zero(lr.Underlying()).(*StructV)
			st.f[0].v = a[0]
			st.f[1].v = a[1]
			return IfaceV{t: types.NewPointer(lr), v: Ptr{in.newCell(st)}}
		},
		"(*io.LimitedReader).Read": func(in *Interp, fn *ssa.Function, a []Value) Value {
			st := a[0].(Ptr).c.v.(*StructV)
			n := in.p.resLin(in.asLin(st.f[1].v))
			if in.p.branch("limit-exhausted", bLin(n, LE0)) {
				return TupleV{mkInt(0), in.eofErr()}
			}
			dst := a[1].(BytesV)
			if !in.p.branch("limit-fits", bLin(in.p.resLin(dst.n).sub(n), LE0)) {
				dst = BytesV{o: dst.o, off: dst.off, n: n}
			}
			src := st.f[0].v.(IfaceV)
			rd := in.findMethod(src.t, nil, "Read")
			if rd == nil {
				in.unsupported("no Read method on %v", src.t)
			}
			res := in.callFunction(rd, []Value{src.v, dst}, nil).(TupleV)
			st.f[1].v = IntV{in.p.resLin(n.sub(in.asLin(res[0])))}
			return res
		},
		"io.ReadAll": func(in *Interp, fn *ssa.Function, a []Value) Value {
			src := a[0].(IfaceV)
			if src.t == nil {
				in.panicGo("runtime error: invalid memory address or nil pointer dereference (nil io.Reader)")
			}
			rd := in.findMethod(src.t, nil, "Read")
			if rd == nil {
				in.unsupported("no Read method on %v", src.t)
			}
			var acc NF = NF{}
			for n := 0; ; n++ {
				if n > in.eng.cfg.unwind {
					in.p.abort("unwind", "ReadAll loop exceeded the bound")
				}
				// memory grows with the bytes read (chunks of 512), never with a declared size
				buf := BytesV{o: in.newByteObj(in.zeroBytes(512)), off: linC(0), n: linC(512)}
				res := in.callFunction(rd, []Value{src.v, buf}, nil).(TupleV)
				k := in.p.resLin(in.asLin(res[0]))
				acc = nfCat(acc, in.p.slice(in.bytesContent(buf), linC(0), k))
				if ev := res[1].(IfaceV); ev.t != nil {
					out := BytesV{o: in.newByteObj(acc), off: linC(0), n: in.p.lenOf(acc)}
					if in.sameRef(ev, in.eofErr()) {
						return TupleV{out, IfaceV{}}
					}
					return TupleV{out, ev}
				}
			}
		},
		"io.ReadFull": func(in *Interp, fn *ssa.Function, a []Value) Value {
			return in.readFull(a[0].(IfaceV), a[1].(BytesV))
		},
		// ---------------------------------------------------------------- regexp
		"regexp.QuoteMeta": func(in *Interp, fn *ssa.Function, a []Value) Value {
			return mkStr(regexp.QuoteMeta(in.litArg(a[0], "regexp.QuoteMeta argument")))
		},
		"regexp.Compile": func(in *Interp, fn *ssa.Function, a []Value) Value {
			pat := in.litArg(a[0], "regexp pattern")
			if _, err := regexp.Compile(pat); err != nil {
				return TupleV{Ptr{}, in.mkErrS(err.Error())}
			}
			return TupleV{Ptr{in.newCell(&HostObj{kind: "regexp", v: pat})}, IfaceV{}}
		},
		"regexp.MustCompile": func(in *Interp, fn *ssa.Function, a []Value) Value {
			pat := in.litArg(a[0], "regexp pattern")
			if _, err := regexp.Compile(pat); err != nil {
				in.panicGo("regexp: Compile: " + err.Error())
			}
			return Ptr{in.newCell(&HostObj{kind: "regexp", v: pat})}
		},
		"regexp.MatchString": func(in *Interp, fn *ssa.Function, a []Value) Value {
			pat := in.litArg(a[0], "regexp pattern")
			if _, err := regexp.Compile(pat); err != nil {
				return TupleV{mkBool(false), in.mkErrS(err.Error())}
			}
			return TupleV{in.reMatch(pat, nfOf(a[1])), IfaceV{}}
		},
		"(*regexp.Regexp).MatchString": func(in *Interp, fn *ssa.Function, a []Value) Value {
			pat := a[0].(Ptr).c.v.(*HostObj).v.(string)
			return in.reMatch(pat, nfOf(a[1]))
		},
		"(*regexp.Regexp).String": func(in *Interp, fn *ssa.Function, a []Value) Value {
			return mkStr(a[0].(Ptr).c.v.(*HostObj).v.(string))
		},
		// ---------------------------------------------------------------- sync
		"(*sync.Mutex).Lock": func(in *Interp, fn *ssa.Function, a []Value) Value {
			p := a[0].(Ptr)
			if p.c == nil {
				in.panicGo("runtime error: invalid memory address or nil pointer dereference")
			}
			in.p.sched.lock(in, p.c)
			return nil
		},
		"(*sync.Mutex).Unlock": func(in *Interp, fn *ssa.Function, a []Value) Value {
			in.p.sched.unlock(in, a[0].(Ptr).c)
			return nil
		},
		"(*sync.Mutex).TryLock": func(in *Interp, fn *ssa.Function, a []Value) Value {
			c := a[0].(Ptr).c
			st := c.v.(*StructV)
			if l := st.f[0].v.(IntV).l; l.isConst() && l.c == 0 {
				in.p.sched.lock(in, c)
				return mkBool(true)
			}
			return mkBool(false)
		},
		"(*sync.RWMutex).Lock": func(in *Interp, fn *ssa.Function, a []Value) Value {
			in.p.sched.lock(in, in.rwInner(a[0]))
			return nil
		},
		"(*sync.RWMutex).Unlock": func(in *Interp, fn *ssa.Function, a []Value) Value {
			in.p.sched.unlock(in, in.rwInner(a[0]))
			return nil
		},
		"(*sync.RWMutex).RLock": func(in *Interp, fn *ssa.Function, a []Value) Value {
			in.p.sched.lock(in, in.rwInner(a[0]))
			return nil
		},
		"(*sync.RWMutex).RUnlock": func(in *Interp, fn *ssa.Function, a []Value) Value {
			in.p.sched.unlock(in, in.rwInner(a[0]))
			return nil
		},
		"sync/atomic.LoadInt32": func(in *Interp, fn *ssa.Function, a []Value) Value {
			in.atomicEdge()
			return in.load(a[0].(Ptr).c)
		},
		"sync/atomic.StoreInt32": func(in *Interp, fn *ssa.Function, a []Value) Value {
			in.atomicEdge()
			in.store(a[0].(Ptr).c, a[1])
			return nil
		},
		"sync/atomic.AddInt32": func(in *Interp, fn *ssa.Function, a []Value) Value {
			in.atomicEdge()
			c := a[0].(Ptr).c
			v := IntV{in.asLin(c.v).add(in.asLin(a[1]))}
			c.v = v
			return v
		},
		"sync/atomic.AddInt64": func(in *Interp, fn *ssa.Function, a []Value) Value {
			in.atomicEdge()
			c := a[0].(Ptr).c
			v := IntV{in.asLin(c.v).add(in.asLin(a[1]))}
			c.v = v
			return v
		},
		"sync/atomic.LoadInt64": func(in *Interp, fn *ssa.Function, a []Value) Value {
			in.atomicEdge()
			return in.load(a[0].(Ptr).c)
		},
		"sync/atomic.StoreInt64": func(in *Interp, fn *ssa.Function, a []Value) Value {
			in.atomicEdge()
			in.store(a[0].(Ptr).c, a[1])
			return nil
		},
		"sync/atomic.CompareAndSwapInt32": func(in *Interp, fn *ssa.Function, a []Value) Value {
			in.atomicEdge()
			c := a[0].(Ptr).c
			if in.p.branch("cas", bLin(in.asLin(c.v).sub(in.asLin(a[1])), EQ0)) {
				c.v = a[2]
				return mkBool(true)
			}
			return mkBool(false)
		},
		// ---------------------------------------------------------------- misc
		// the environment is empty unless the harness set a variable with rt.Setenv
		"os.Getenv": func(in *Interp, fn *ssa.Function, a []Value) Value {
			k := in.p.res(nfOf(a[0]))
			if !k.isLit() {
				in.unsupported("os.Getenv with a symbolic name")
			}
			if v, ok := in.p.env[k.litValue()]; ok {
				return StrV{v}
			}
			return mkStr("")
		},
		"os.LookupEnv": func(in *Interp, fn *ssa.Function, a []Value) Value {
			k := in.p.res(nfOf(a[0]))
			if !k.isLit() {
				in.unsupported("os.LookupEnv with a symbolic name")
			}
			if v, ok := in.p.env[k.litValue()]; ok {
				return TupleV{StrV{v}, mkBool(true)}
			}
			return TupleV{mkStr(""), mkBool(false)}
		},
		// ---------------------------------------------------------------- hashes, hex
		// A digest is a function of its input: concrete input -> the real digest; symbolic input -> N arbitrary bytes,
		// the same atom for the same (syntactically equal) input on one path. Over-approximates: more digests than real.
		"crypto/md5.Sum":       func(in *Interp, fn *ssa.Function, a []Value) Value { return in.digest("md5", 16, a[0]) },
		"crypto/sha1.Sum":      func(in *Interp, fn *ssa.Function, a []Value) Value { return in.digest("sha1", 20, a[0]) },
		"crypto/sha256.Sum256": func(in *Interp, fn *ssa.Function, a []Value) Value { return in.digest("sha256", 32, a[0]) },
		"encoding/hex.EncodeToString": func(in *Interp, fn *ssa.Function, a []Value) Value {
			src := in.p.res(in.bytesContent(a[0].(BytesV)))
			if src.isLit() {
				return mkStr(hex.EncodeToString([]byte(src.litValue())))
			}
			n := in.concreteInt("hex-len", in.p.lenOf(src))
			key := "hex:" + nfKey(src)
			if v, ok := in.p.digests[key]; ok {
				return StrV{v}
			}
			at := in.p.newAtom(in.p.uniq("hex"), setStr("0123456789abcdef"), 2*n, 2*n)
			out := NF{{atom: at.id}}
			in.p.digests[key] = out
			return StrV{out}
		},
		"github.com/google/uuid.NewRandom": func(in *Interp, fn *ssa.Function, a []Value) Value {
			hex := setStr("0123456789abcdef")
			var s NF
			if in.p.uuidDistinct {
				// the harness assumes draws never collide (rt.DistinctUUIDs): the k-th draw is a fixed value
				in.p.uuidCalls++
				return TupleV{&HostObj{kind: "uuid", v: nfLit(fmt.Sprintf("00000000-0000-4000-8000-%012x", in.p.uuidCalls))}, IfaceV{}}
			}
			for i, n := range []int64{8, 4, 4, 4, 12} {
				if i > 0 {
					s = nfCat(s, nfLit("-"))
				}
				at := in.p.newAtom(in.p.uniq("uuid"), hex, n, n)
				s = nfCat(s, NF{{atom: at.id}})
			}
			in.p.uuidCalls++
			return TupleV{&HostObj{kind: "uuid", v: s}, IfaceV{}}
		},
		"(github.com/google/uuid.UUID).String": func(in *Interp, fn *ssa.Function, a []Value) Value {
			return StrV{a[0].(*HostObj).v.(NF)}
		},
		"net/url.Parse": func(in *Interp, fn *ssa.Function, a []Value) Value {
			s := in.litArg(a[0], "url.Parse argument")
			u, err := url.Parse(s)
			if err != nil {
				return TupleV{Ptr{}, in.mkErrS(err.Error())}
			}
			rt := fn.Signature.Results().At(0).Type().(*types.Pointer).Elem()
			return TupleV{Ptr{in.newCell(in.fromHost(reflect.ValueOf(*u), rt))}, IfaceV{}}
		},
		"(time.Duration).Seconds": func(in *Interp, fn *ssa.Function, a []Value) Value {
			return FloatV{in.asLin(a[0]), 1000000000}
		},
		"(time.Duration).String": func(in *Interp, fn *ssa.Function, a []Value) Value {
			return mkStr("<duration>")
		},
	}
}

func (in *Interp) atomicEdge() {
	// atomic operations are synchronisation: treated as totally ordered (join with a global clock)
	if in.p.mon != nil {
		in.g.vc = in.g.vc.join(in.p.atomicVC)
		in.g.vc = in.g.vc.tick(in.g.id)
		in.p.atomicVC = in.g.vc.copy()
		in.g.vcFull = in.g.vcFull.join(in.p.atomicVCFull)
		in.g.vcFull = in.g.vcFull.tick(in.g.id)
		in.p.atomicVCFull = in.g.vcFull.copy()
	}
}

func (in *Interp) rwInner(v Value) *Cell {
	p := v.(Ptr)
	if p.c == nil {
		in.panicGo("runtime error: invalid memory address or nil pointer dereference")
	}
	// RWMutex{w Mutex, ...}: use the embedded writer mutex cell as the lock identity
	return p.c.v.(*StructV).f[0]
}

func (in *Interp) byteNF(v Value) NF {
	switch x := v.(type) {
	case ByteV:
		return x.b.nf()
	case IntV:
		l := in.p.resLin(x.l)
		if l.isConst() {
			return nfLit(string([]byte{byte(l.c)}))
		}
	}
	in.unsupported("symbolic integer used as byte")
	return nil
}

// quoteApprox renders strconv.Quote(s) for error messages (never inspected by the repository).
func (in *Interp) quoteApprox(s NF) NF { return nfCat(nfLit("\""), in.p.res(s), nfLit("\"")) }

func (in *Interp) reMatch(pat string, s NF) Value {
	s = in.p.res(s)
	re, err := reFromGo(pat, false)
	if err != nil {
		if s.isLit() {
			return mkBool(regexp.MustCompile(pat).MatchString(s.litValue()))
		}
		in.unsupported("regexp %q: %v", pat, err)
	}
	if s.isLit() {
		return mkBool(re.match(s.litValue()))
	}
	return BoolV{in.p.simp(&B{k: BInRe, a: s, re: re})}
}

// indexMulti finds the first occurrence of a multi-byte literal separator.
func (in *Interp) indexMulti(s NF, sep string) Lin {
	s = in.p.res(s)
	rest := s
	base := linC(0)
	for n := 0; n < in.eng.cfg.maxPieces*4; n++ {
		before, _, after, found := in.p.splitFirst(rest, setOf(sep[0]))
		if !found {
			return linC(-1)
		}
		pos := base.add(in.p.lenOf(before))
		if in.p.branch("index-multi", in.p.hasPrefix(after, sep[1:])) {
			return in.p.resLin(pos)
		}
		base = pos.addC(1)
		rest = after
	}
	in.p.abort("unwind", "Index scan exceeded the bound")
	return Lin{}
}

func (in *Interp) replace(sv, oldv, newv Value, n int64) Value {
	old := in.litArg(oldv, "Replace old")
	s := in.p.res(nfOf(sv))
	nw := in.p.res(nfOf(newv))
	if s.isLit() && nw.isLit() {
		return mkStr(strings.Replace(s.litValue(), old, nw.litValue(), int(n)))
	}
	if len(old) != 1 {
		in.unsupported("Replace with multi-byte pattern on symbolic string")
	}
	var out NF = NF{}
	for k := int64(0); n < 0 || k < n; k++ {
		before, _, after, found := in.p.splitFirst(s, setOf(old[0]))
		if !found {
			break
		}
		out = nfCat(out, before, nw)
		s = after
	}
	return StrV{nfCat(out, in.p.res(s))}
}

// caseMap implements ToLower / ToUpper on ASCII; non-ASCII bytes are outside the model.
func (in *Interp) caseMap(s NF, upper bool) NF {
	s = in.p.res(s)
	from := setRange('A', 'Z')
	if upper {
		from = setRange('a', 'z')
	}
	var out NF = NF{}
	for _, sg := range s {
		if sg.atom == 0 {
			for i := 0; i < len(sg.lit); i++ {
				if sg.lit[i] >= 0x80 {
					in.p.abort("outside", "case mapping of non-ASCII bytes")
				}
			}
			if upper {
				out = nfCat(out, nfLit(strings.ToUpper(sg.lit)))
			} else {
				out = nfCat(out, nfLit(strings.ToLower(sg.lit)))
			}
			continue
		}
		a := in.p.atoms[sg.atom]
		if !a.cls.and(setHigh).empty() {
			if in.p.containsFork("case-high", a, setHigh, &B{k: BInRe, a: NF{sg}, re: reClassStar(a.cls.minus(setHigh))}) {
				in.p.narrow(a, setHigh.not())
			} else {
				in.p.abort("outside", "case mapping of non-ASCII bytes")
			}
		}
		if a.cls.and(from).empty() {
			out = nfCat(out, in.p.res(NF{sg}))
			continue
		}
		if in.p.containsFork("case-map", a, from, &B{k: BInRe, a: NF{sg}, re: reClassStar(a.cls.minus(from))}) {
			in.p.narrow(a, from.not())
			out = nfCat(out, in.p.res(NF{sg}))
			continue
		}
		// byte-wise mapping
		n := in.concreteInt("case-len", linV(a.lenv))
		cur := in.p.res(NF{sg})
		for i := int64(0); i < n; i++ {
			b := in.p.byteAt(cur, linC(i))
			if b.atom == 0 {
				c := b.c
				if from.has(c) {
					c ^= 0x20
				}
				out = nfCat(out, nfLit(string([]byte{c})))
				continue
			}
			ba := in.p.atoms[b.atom]
			if ba.cls.and(from).empty() {
				out = nfCat(out, b.nf())
				continue
			}
			if in.p.containsFork("case-byte", ba, from, &B{k: BInRe, a: b.nf(), re: reClassStar(ba.cls.minus(from))}) {
				in.p.narrow(ba, from.not())
				out = nfCat(out, b.nf())
				continue
			}
			in.p.narrow(ba, from)
			var mapped ByteSet
			for c := 0; c < 256; c++ {
				if ba.cls.has(byte(c)) {
					mapped.add(byte(c) ^ 0x20)
				}
			}
			m := in.p.newAtom(ba.name+"~", mapped, 1, 1)
			d := in.byteToLin(byteVal{atom: m.id}).sub(in.byteToLin(b))
			if upper {
				in.p.assume(bLin(d.addC(32), EQ0))
			} else {
				in.p.assume(bLin(d.addC(-32), EQ0))
			}
			out = nfCat(out, NF{{atom: m.id}})
		}
	}
	return out
}

// ---------------------------------------------------------------- fmt

func (in *Interp) ifaceArgs(v Value) []IfaceV {
	s, ok := v.(SliceV)
	if !ok {
		return nil
	}
	out := make([]IfaceV, s.n)
	for i := 0; i < s.n; i++ {
		out[i] = s.a.e[s.off+i].v.(IfaceV)
	}
	return out
}

func (in *Interp) sprint(argsV Value) NF {
	var out NF = NF{}
	args := in.ifaceArgs(argsV)
	for i, a := range args {
		_, isStr := a.v.(StrV)
		if i > 0 {
			_, prevStr := args[i-1].v.(StrV)
			if !isStr && !prevStr {
				out = nfCat(out, nfLit(" "))
			}
		}
		out = nfCat(out, in.fmtValue(a, 'v'))
	}
	return out
}

// format implements the fmt verbs the code base uses.
func (in *Interp) format(f NF, argsV Value) NF {
	f = in.p.res(f)
	args := in.ifaceArgs(argsV)
	if !f.isLit() {
		// symbolic format string: exact when it cannot contain '%'
		pct := setOf('%')
		for _, sg := range f {
			if sg.atom == 0 {
				if strings.IndexByte(sg.lit, '%') >= 0 {
					return in.havocFormat(f)
				}
				continue
			}
			a := in.p.atoms[sg.atom]
			if a.cls.has('%') {
				if in.p.containsFork("fmt-percent", a, pct, &B{k: BInRe, a: NF{sg}, re: reClassStar(a.cls.minus(pct))}) {
					in.p.narrow(a, pct.not())
				} else {
					in.p.splitAtom(a, pct, true) // records that the atom contains '%'
					return in.havocFormat(f)
				}
			}
		}
		out := in.p.res(f)
		if len(args) > 0 {
			out = nfCat(out, nfLit("%!(EXTRA "))
			for i, a := range args {
				if i > 0 {
					out = nfCat(out, nfLit(", "))
				}
				out = nfCat(out, in.typeName(a), nfLit("="), in.fmtValue(a, 'v'))
			}
			out = nfCat(out, nfLit(")"))
		}
		return out
	}
	fs := f.litValue()
	var out NF = NF{}
	ai := 0
	for i := 0; i < len(fs); i++ {
		c := fs[i]
		if c != '%' {
			j := i
			for j < len(fs) && fs[j] != '%' {
				j++
			}
			out = nfCat(out, nfLit(fs[i:j]))
			i = j - 1
			continue
		}
		i++
		if i >= len(fs) {
			out = nfCat(out, nfLit("%!(NOVERB)"))
			break
		}
		verb := fs[i]
		if verb == '%' {
			out = nfCat(out, nfLit("%"))
			continue
		}
		if !strings.ContainsRune("svdtq", rune(verb)) {
			in.unsupported("fmt verb %%%c (flags/width not modelled)", verb)
		}
		if ai >= len(args) {
			out = nfCat(out, nfLit("%!"+string(verb)+"(MISSING)"))
			continue
		}
		out = nfCat(out, in.fmtValue(args[ai], verb))
		ai++
	}
	if ai < len(args) {
		out = nfCat(out, nfLit("%!(EXTRA "))
		for i, a := range args[ai:] {
			if i > 0 {
				out = nfCat(out, nfLit(", "))
			}
			out = nfCat(out, in.typeName(a), nfLit("="), in.fmtValue(a, 'v'))
		}
		out = nfCat(out, nfLit(")"))
	}
	return out
}

// havocFormat: a symbolic format string that may contain '%' is over-approximated.
func (in *Interp) havocFormat(f NF) NF {
	in.p.overApprox = true
	in.p.note("message text used as fmt format string with a possible '%' (result over-approximated)")
	_, hi := in.p.interval(in.p.lenOf(f))
	if hi > 64 || hi == posInf {
		hi = 64
	}
	in.p.violate("over-approximation: message text is used as a fmt format string and may contain '%' (output arbitrary)", nil)
	in.p.abort("end-violated", "symbolic format string with '%'")
	a := in.p.newAtom("fmthavoc", setAll, 0, hi+24)
	return NF{{atom: a.id}}
}

func (in *Interp) typeName(a IfaceV) NF {
	if a.t == nil {
		return nfLit("<nil>")
	}
	return nfLit(types.TypeString(a.t, func(p *types.Package) string { return p.Name() }))
}

func (in *Interp) fmtValue(a IfaceV, verb byte) NF {
	if a.t == nil {
		if verb == 'v' {
			return nfLit("<nil>")
		}
		return nfLit("%!" + string(verb) + "(<nil>)")
	}
	// error / Stringer
	if verb == 's' || verb == 'v' || verb == 'q' {
		for _, m := range []string{"Error", "String"} {
			fn := in.findMethod(a.t, nil, m)
			if fn == nil || fn.Signature.Params().Len() != 0 || fn.Signature.Results().Len() != 1 {
				continue
			}
			if b, ok := fn.Signature.Results().At(0).Type().(*types.Basic); !ok || b.Kind() != types.String {
				continue
			}
			if p, ok := a.v.(Ptr); ok && p.c == nil {
				return nfLit("<nil>")
			}
			r := in.callFunction(fn, []Value{a.v}, nil)
			if verb == 'q' {
				return in.quoteApprox(nfOf(r))
			}
			return in.p.res(nfOf(r))
		}
	}
	switch x := a.v.(type) {
	case StrV:
		switch verb {
		case 's', 'v':
			return in.p.res(x.n)
		case 'q':
			if n := in.p.res(x.n); n.isLit() {
				return nfLit(strconv.Quote(n.litValue()))
			}
			return in.quoteApprox(x.n)
		case 'd':
			return nfCat(nfLit("%!d(string="), in.p.res(x.n), nfLit(")"))
		}
	case IntV:
		switch verb {
		case 'd', 'v':
			return in.p.itoa(x.l)
		case 's':
			return nfCat(nfLit("%!s("+types.TypeString(a.t, nil)+"="), in.p.itoa(x.l), nfLit(")"))
		}
	case ByteV:
		return in.p.itoa(in.byteToLin(x.b))
	case BoolV:
		if in.p.branch("fmt-bool", x.b) {
			return nfLit("true")
		}
		return nfLit("false")
	case Ptr:
		if x.c == nil {
			return nfLit("<nil>")
		}
	case BytesV:
		if verb == 's' {
			return in.bytesContent(x)
		}
	}
	in.unsupported("fmt %%%c of %s (%v)", verb, describe(a.v), a.t)
	return nil
}

// writeTo calls w.Write(data) through the io.Writer interface and returns (n, err).
func (in *Interp) writeTo(w Value, data NF) Value {
	iv := w.(IfaceV)
	if iv.t == nil {
		in.panicGo("runtime error: invalid memory address or nil pointer dereference (nil io.Writer)")
	}
	fn := in.findMethod(iv.t, nil, "Write")
	if fn == nil {
		in.unsupported("no Write method on %v", iv.t)
	}
	data = in.p.res(data)
	b := BytesV{o: in.newByteObj(data), off: linC(0), n: in.p.lenOf(data)}
	return in.callFunction(fn, []Value{iv.v, b}, nil)
}

// ---------------------------------------------------------------- in-memory buffers

type memBuf struct {
	data NF       // unread / accumulated content
	src  *ByteObj // the []byte a bytes.Buffer / bytes.Reader was created over (it aliases it)
}

func (in *Interp) memBufOf(v Value) *memBuf {
	p := v.(Ptr)
	if p.c == nil {
		in.panicGo("runtime error: invalid memory address or nil pointer dereference")
	}
	if h, ok := p.c.v.(*HostObj); ok && h.kind == "membuf" {
		return h.v.(*memBuf)
	}
	// zero-value bytes.Buffer / strings.Builder declared by value: convert in place
	mb := &memBuf{data: NF{}}
	p.c.v = &HostObj{kind: "membuf", v: mb}
	return mb
}

func memRead(in *Interp, fn *ssa.Function, a []Value) Value {
	mb := in.memBufOf(a[0])
	dst := a[1].(BytesV)
	in.p.accessBytes(in, mb.src, false) // the reader aliases the slice it was created over
	mb.data = in.p.res(mb.data)
	avail := in.p.lenOf(mb.data)
	want := in.p.resLin(dst.n)
	if in.p.branch("memread-empty", bLin(avail, EQ0)) {
		if in.p.branch("memread-zero", bLin(want, EQ0)) {
			return TupleV{mkInt(0), IfaceV{}}
		}
		return TupleV{mkInt(0), in.eofErr()}
	}
	n := want
	if in.p.branch("memread-all", bLin(avail.sub(want), LE0)) {
		n = avail
	}
	data, rest := in.p.locate(mb.data, n)
	mb.data = in.p.res(rest)
	in.bytesWrite(dst, linC(0), in.p.res(data))
	return TupleV{IntV{n}, IfaceV{}}
}

func (in *Interp) eofErr() Value { return in.load(in.global(in.eng.ioEOF)) }
func (in *Interp) unexpectedEOF() Value {
	return in.load(in.global(in.eng.ioUnexpectedEOF))
}

// ---------------------------------------------------------------- bufio.Reader (contract model)

type BufReader struct {
	src      IfaceV
	size     Lin
	buffered NF
	gen      int
	err      Value // sticky error from the source (returned once the buffer is drained)
	lastByte *byteVal
}

func (in *Interp) newBufReader(src IfaceV, size Lin) Value {
	r := &BufReader{src: src, size: size, buffered: NF{}}
	return Ptr{in.newCell(&HostObj{kind: "bufio", v: r})}
}

func (in *Interp) bufReaderOf(v Value) *BufReader {
	p := v.(Ptr)
	if p.c == nil {
		in.panicGo("runtime error: invalid memory address or nil pointer dereference")
	}
	return p.c.v.(*HostObj).v.(*BufReader)
}

// srcRead reads at most `want` bytes from the underlying reader.
func (r *BufReader) srcRead(in *Interp, want Lin) (NF, Value) {
	if p, ok := r.src.v.(Ptr); ok && p.c != nil {
		if h, ok := p.c.v.(*HostObj); ok && h.kind == "membuf" {
			mb := h.v.(*memBuf)
			in.p.accessBytes(in, mb.src, false) // the reader aliases the slice it was created over
			mb.data = in.p.res(mb.data)
			avail := in.p.lenOf(mb.data)
			if in.p.branch("src-empty", bLin(avail, EQ0)) {
				return NF{}, in.eofErr()
			}
			n := want
			if in.p.branch("src-all", bLin(avail.sub(want), LE0)) {
				n = avail
			}
			data, rest := in.p.locate(mb.data, n)
			mb.data = in.p.res(rest)
			return in.p.res(data), IfaceV{}
		}
	}
	// generic io.Reader implemented by interpreted code
	fn := in.findMethod(r.src.t, nil, "Read")
	if fn == nil {
		in.unsupported("no Read method on %v", r.src.t)
	}
	var content NF
	wl := in.p.resLin(want)
	if wl.isConst() {
		content = in.zeroBytes(wl.c)
	} else {
		_, hi := in.p.interval(wl)
		a := in.p.newAtom("rdbuf", setOf(0), 0, hi)
		in.p.assume(bLin(linV(a.lenv).sub(wl), EQ0))
		content = NF{{atom: a.id}}
	}
	buf := BytesV{o: in.newByteObj(content), off: linC(0), n: wl}
	res := in.callFunction(fn, []Value{r.src.v, buf}, nil).(TupleV)
	n := in.p.resLin(in.asLin(res[0]))
	data := in.p.slice(in.bytesContent(buf), linC(0), n)
	return data, res[1]
}

func (r *BufReader) fill(in *Interp) {
	want := in.p.resLin(r.size.sub(in.p.lenOf(r.buffered)))
	data, err := r.srcRead(in, want)
	r.buffered = nfCat(in.p.res(r.buffered), data)
	if iv := err.(IfaceV); iv.t != nil {
		r.err = err
	}
}

func (r *BufReader) view(in *Interp, data NF) Value {
	o := in.newByteObj(in.p.res(data))
	o.owner, o.gen = r, r.gen
	return BytesV{o: o, off: linC(0), n: in.p.lenOf(data)}
}

func (r *BufReader) takeErr() Value {
	e := r.err
	r.err = nil
	return e
}

func (r *BufReader) readLine(in *Interp) Value {
	r.gen++
	r.lastByte = nil
	nl := setOf('\n')
	for n := 0; ; n++ {
		if n > in.eng.cfg.unwind {
			in.p.abort("unwind", "bufio fill loop exceeded the bound")
		}
		before, _, after, found := in.p.splitFirst(r.buffered, nl)
		if found {
			r.buffered = after
			line := before
			// drop a trailing '\r'
			if lo, hi := in.p.interval(in.p.lenOf(line)); hi > 0 {
				nonEmpty := lo > 0 || !in.p.branch("line-empty", bLin(in.p.lenOf(line), EQ0))
				if nonEmpty {
					last := in.p.byteAt(line, in.p.lenOf(line).addC(-1))
					isCR := last.atom == 0 && last.c == '\r'
					if last.atom != 0 {
						isCR = in.p.branch("line-cr", in.p.strEq(last.nf(), nfLit("\r")))
					}
					if isCR {
						line, _ = in.p.locate(line, in.p.lenOf(line).addC(-1))
					}
				}
			}
			return TupleV{r.view(in, line), mkBool(false), IfaceV{}}
		}
		r.buffered = in.p.res(before)
		blen := in.p.lenOf(r.buffered)
		if in.p.branch("buf-full", bLin(r.size.sub(blen), LE0)) {
			// buffer full without a line end: return it as a prefix; a trailing '\r' stays unread
			line := r.buffered
			r.buffered = NF{}
			last := in.p.byteAt(line, in.p.lenOf(line).addC(-1))
			isCR := last.atom == 0 && last.c == '\r'
			if last.atom != 0 {
				isCR = in.p.branch("prefix-cr", in.p.strEq(last.nf(), nfLit("\r")))
			}
			if isCR {
				line, _ = in.p.locate(line, in.p.lenOf(line).addC(-1))
				r.buffered = nfLit("\r")
			}
			return TupleV{r.view(in, line), mkBool(true), IfaceV{}}
		}
		if r.err != nil {
			if in.p.branch("buf-empty", bLin(blen, EQ0)) {
				return TupleV{BytesV{}, mkBool(false), r.takeErr()}
			}
			line := r.buffered
			r.buffered = NF{}
			return TupleV{r.view(in, line), mkBool(false), IfaceV{}}
		}
		r.fill(in)
	}
}

func (r *BufReader) readByte(in *Interp) Value {
	r.gen++
	for n := 0; ; n++ {
		if n > in.eng.cfg.unwind {
			in.p.abort("unwind", "bufio fill loop exceeded the bound")
		}
		r.buffered = in.p.res(r.buffered)
		if !in.p.branch("rb-empty", bLin(in.p.lenOf(r.buffered), EQ0)) {
			b := in.p.byteAt(r.buffered, linC(0))
			_, rest := in.p.locate(r.buffered, linC(1))
			r.buffered = in.p.res(rest)
			r.lastByte = &b
			if b.atom != 0 {
				return TupleV{ByteV{b}, IfaceV{}}
			}
			return TupleV{mkInt(int64(b.c)), IfaceV{}}
		}
		if r.err != nil {
			r.lastByte = nil
			return TupleV{mkInt(0), r.takeErr()}
		}
		r.fill(in)
	}
}

// peek returns the next n bytes without consuming them (a view, like every slice of the reader).
func (r *BufReader) peek(in *Interp, n Lin) Value {
	r.gen++
	r.lastByte = nil
	if in.p.branch("peek-neg", bLin(n, LT0)) {
		return TupleV{BytesV{}, in.mkErrS("bufio: negative count")}
	}
	for k := 0; ; k++ {
		if k > in.eng.cfg.unwind {
			in.p.abort("unwind", "bufio fill loop exceeded the bound")
		}
		r.buffered = in.p.res(r.buffered)
		blen := in.p.lenOf(r.buffered)
		if in.p.branch("peek-enough", bLin(n.sub(blen), LE0)) {
			data, _ := in.p.locate(r.buffered, n)
			return TupleV{r.view(in, data), IfaceV{}}
		}
		if in.p.branch("peek-full", bLin(r.size.sub(blen), LE0)) {
			return TupleV{r.view(in, r.buffered), in.load(in.global(in.eng.bufioErrBufferFull))}
		}
		if r.err != nil {
			return TupleV{r.view(in, r.buffered), r.takeErr()}
		}
		r.fill(in)
	}
}

// discard skips the next n bytes.
func (r *BufReader) discard(in *Interp, n Lin) Value {
	r.gen++
	r.lastByte = nil
	if in.p.branch("discard-neg", bLin(n, LT0)) {
		return TupleV{mkInt(0), in.mkErrS("bufio: negative count")}
	}
	done := linC(0)
	for k := 0; ; k++ {
		if k > in.eng.cfg.unwind {
			in.p.abort("unwind", "bufio fill loop exceeded the bound")
		}
		rest := in.p.resLin(n.sub(done))
		if in.p.branch("discard-done", bLin(rest, LE0)) {
			return TupleV{IntV{n}, IfaceV{}}
		}
		r.buffered = in.p.res(r.buffered)
		blen := in.p.lenOf(r.buffered)
		if !in.p.branch("discard-empty", bLin(blen, EQ0)) {
			take := rest
			if in.p.branch("discard-all", bLin(blen.sub(rest), LE0)) {
				take = blen
			}
			_, after := in.p.locate(r.buffered, take)
			r.buffered = in.p.res(after)
			done = in.p.resLin(done.add(take))
			continue
		}
		if r.err != nil {
			return TupleV{IntV{done}, r.takeErr()}
		}
		r.fill(in)
	}
}

// readUntil reads up to and including the delimiter (ReadString / ReadBytes: a copy, no size limit).
func (r *BufReader) readUntil(in *Interp, delim byte) (NF, Value) {
	r.gen++
	r.lastByte = nil
	var acc NF = NF{}
	for k := 0; ; k++ {
		if k > in.eng.cfg.unwind {
			in.p.abort("unwind", "bufio fill loop exceeded the bound")
		}
		before, w, after, found := in.p.splitFirst(r.buffered, setOf(delim))
		if found {
			r.buffered = after
			return nfCat(acc, before, w.nf()), IfaceV{}
		}
		acc = nfCat(acc, in.p.res(before))
		r.buffered = NF{}
		if r.err != nil {
			return acc, r.takeErr()
		}
		r.fill(in)
	}
}

func (r *BufReader) unreadByte(in *Interp) Value {
	if r.lastByte == nil {
		return in.load(in.global(in.eng.bufioErrInvalidUnreadByte))
	}
	r.buffered = nfCat(r.lastByte.nf(), in.p.res(r.buffered))
	r.lastByte = nil
	return IfaceV{}
}

func (r *BufReader) read(in *Interp, dst BytesV) Value {
	r.gen++
	r.lastByte = nil
	want := in.p.resLin(dst.n)
	if in.p.branch("read-zero", bLin(want, EQ0)) {
		return TupleV{mkInt(0), IfaceV{}}
	}
	r.buffered = in.p.res(r.buffered)
	if in.p.branch("read-buf-empty", bLin(in.p.lenOf(r.buffered), EQ0)) {
		if r.err != nil {
			return TupleV{mkInt(0), r.takeErr()}
		}
		r.fill(in)
		if in.p.branch("read-buf-empty2", bLin(in.p.lenOf(r.buffered), EQ0)) {
			if r.err != nil {
				return TupleV{mkInt(0), r.takeErr()}
			}
			return TupleV{mkInt(0), IfaceV{}}
		}
	}
	avail := in.p.lenOf(r.buffered)
	n := want
	if in.p.branch("read-all", bLin(avail.sub(want), LE0)) {
		n = avail
	}
	data, rest := in.p.locate(r.buffered, n)
	r.buffered = in.p.res(rest)
	in.bytesWrite(dst, linC(0), in.p.res(data))
	return TupleV{IntV{n}, IfaceV{}}
}

// readFull implements io.ReadFull on any reader.
func (in *Interp) readFull(src IfaceV, dst BytesV) Value {
	if src.t == nil {
		in.panicGo("runtime error: invalid memory address or nil pointer dereference (nil io.Reader)")
	}
	fn := in.findMethod(src.t, nil, "Read")
	if fn == nil {
		in.unsupported("no Read method on %v", src.t)
	}
	total := linC(0)
	want := in.p.resLin(dst.n)
	for n := 0; ; n++ {
		if n > in.eng.cfg.unwind {
			in.p.abort("unwind", "ReadFull loop exceeded the bound")
		}
		if in.p.branch("readfull-done", bLin(want.sub(total), LE0)) {
			return TupleV{IntV{total}, IfaceV{}}
		}
		sub := BytesV{o: dst.o, off: in.p.resLin(dst.off.add(total)), n: in.p.resLin(want.sub(total))}
		res := in.callFunction(fn, []Value{src.v, sub}, nil).(TupleV)
		k := in.p.resLin(in.asLin(res[0]))
		total = in.p.resLin(total.add(k))
		if ev := res[1].(IfaceV); ev.t != nil {
			if in.p.branch("readfull-done2", bLin(want.sub(total), LE0)) {
				return TupleV{IntV{total}, IfaceV{}}
			}
			if in.sameRef(ev, in.eofErr()) {
				if in.p.branch("readfull-none", bLin(total, EQ0)) {
					return TupleV{IntV{total}, ev}
				}
				return TupleV{IntV{total}, in.unexpectedEOF()}
			}
			return TupleV{IntV{total}, ev}
		}
	}
}

// ---------------------------------------------------------------- host values

// fromHost converts a concrete Go value into an interpreter value of the given type.
func (in *Interp) fromHost(v reflect.Value, t types.Type) Value {
	switch u := t.Underlying().(type) {
	case *types.Basic:
		switch {
		case u.Info()&types.IsString != 0:
			return mkStr(v.String())
		case u.Info()&types.IsBoolean != 0:
			return mkBool(v.Bool())
		case u.Info()&types.IsInteger != 0:
			if v.CanInt() {
				return mkInt(v.Int())
			}
			return mkInt(int64(v.Uint()))
		}
	case *types.Struct:
		s := in.zero(t).(*StructV)
		for i := 0; i < u.NumFields() && i < v.NumField(); i++ {
			f := v.Field(i)
			switch f.Kind() {
			case reflect.String, reflect.Bool, reflect.Int, reflect.Int64, reflect.Int32:
				s.f[i].v = in.fromHost(f, u.Field(i).Type())
			}
		}
		return s
	}
	in.unsupported("cannot convert host value of type %v", t)
	return nil
}

var _ = fmt.Sprint

// trimSet removes leading / trailing bytes that belong to the cut set.
func (in *Interp) trimSet(s NF, set ByteSet, left, right bool) NF {
	keep := set.not()
	if left {
		_, from, found := in.p.findFirst(s, keep)
		if !found {
			return NF{}
		}
		s = from
	}
	if right {
		upto, _, found := in.p.findLast(s, keep)
		if !found {
			return NF{}
		}
		s = upto
	}
	return in.p.res(s)
}

// sortSliceModel: sort.Slice / sort.SliceStable as an insertion sort that calls the real less
// closure (symbolic outcomes fork). The order among elements that less does not separate is the
// incoming order — for sort.Slice one of the orders the real (unstable) algorithm may produce.
func sortSliceModel(in *Interp, fn *ssa.Function, a []Value) Value {
	iv, ok := a[0].(IfaceV)
	if !ok {
		in.unsupported("sort.Slice on %s", describe(a[0]))
	}
	s, ok := iv.v.(SliceV)
	if !ok {
		in.unsupported("sort.Slice on %s", describe(iv.v))
	}
	less, ok := a[1].(*Closure)
	if !ok || less == nil {
		in.panicGo("runtime error: invalid memory address or nil pointer dereference (nil less func)")
	}
	call := func(i, j int) bool {
		var r Value
		args := []Value{mkInt(int64(i)), mkInt(int64(j))}
		if less.host != nil {
			r = less.host(in, args)
		} else {
			r = in.callFunction(less.fn, args, less.fv)
		}
		return in.p.branch("sort-less", r.(BoolV).b)
	}
	for i := 1; i < s.n; i++ {
		for j := i; j > 0; j-- {
			if !call(j, j-1) {
				break
			}
			x, y := s.a.e[s.off+j-1], s.a.e[s.off+j]
			x.v, y.v = y.v, x.v
		}
	}
	return nil
}

// stringsMap models strings.Map(f, s). Literal parts are decoded as Go does (invalid UTF-8 bytes become
// U+FFFD, one byte at a time). For a symbolic atom the mapping function is probed on every ASCII value of the
// atom's class (concrete calls): if it is the identity on all of them the atom passes unchanged, otherwise the
// atom is split on "contains a byte the function changes" and expanded byte by byte. Bytes >= 0x80 decode as
// multi-byte runes or as U+FFFD depending on their neighbours: that sub-domain is over-approximated — the path
// ends with a candidate violation that is reported only if the native run of the same input violates an
// assertion; one candidate is restricted to bytes that are never part of valid UTF-8 (0xC0, 0xC1, 0xF5..0xFF).
func stringsMap(in *Interp, fn *ssa.Function, a []Value) Value {
	f, ok := a[0].(*Closure)
	if !ok || f == nil {
		in.panicGo("runtime error: invalid memory address or nil pointer dereference (nil mapping func)")
	}
	call := func(r int64) (int64, bool) {
		var res Value
		args := []Value{mkInt(r)}
		if f.host != nil {
			res = f.host(in, args)
		} else {
			res = in.callFunction(f.fn, args, f.fv)
		}
		l := in.p.resLin(in.asLin(res))
		if !l.isConst() {
			in.unsupported("strings.Map: mapping function with a symbolic result for a concrete rune")
		}
		return l.c, l.c >= 0
	}
	emit := func(out NF, r int64) NF {
		m, keep := call(r)
		if !keep {
			return out
		}
		return nfCat(out, nfLit(string(rune(m))))
	}
	s := in.p.res(nfOf(a[1]))
	var out NF = NF{}
	neverValid := setOf(0xC0, 0xC1).or(setRange(0xF5, 0xFF))
	for _, sg := range s {
		if sg.atom == 0 {
			for _, r := range sg.lit {
				out = emit(out, int64(r))
			}
			continue
		}
		at := in.p.atoms[sg.atom]
		if !at.cls.and(setHigh).empty() {
			noHigh := &B{k: BInRe, a: NF{sg}, re: reClassStar(at.cls.minus(setHigh))}
			if in.p.fork("map-high", []*B{noHigh, bNot(noHigh)}) == 0 {
				in.p.narrow(at, setHigh.not())
			} else {
				other := setHigh.minus(neverValid)
				onlyNever := &B{k: BInRe, a: NF{sg}, re: reClassStar(at.cls.minus(other))}
				if !at.cls.and(neverValid).empty() && in.p.fork("map-never-valid", []*B{onlyNever, bNot(onlyNever)}) == 0 {
					in.p.narrow(at, other.not())
				}
				in.p.overApprox = true
				in.p.note("strings.Map over bytes >= 0x80 (rune decoding depends on the neighbours; result over-approximated)")
				in.p.violate("over-approximation: text with bytes >= 0x80 goes through strings.Map (invalid UTF-8 is rewritten to U+FFFD; result arbitrary in the model)", nil)
				in.p.abort("end-violated", "strings.Map over non-ASCII bytes")
			}
		}
		at = in.p.atoms[sg.atom]
		var nonID ByteSet
		res := map[byte]int64{}
		for c := 0; c < 0x80; c++ {
			if at.cls.has(byte(c)) {
				m, _ := call(int64(c))
				res[byte(c)] = m
				if m != int64(c) {
					nonID.add(byte(c))
				}
			}
		}
		if nonID.empty() {
			out = nfCat(out, in.p.res(NF{sg}))
			continue
		}
		if in.p.containsFork("map-changed", at, nonID, &B{k: BInRe, a: NF{sg}, re: reClassStar(at.cls.minus(nonID))}) {
			in.p.narrow(at, nonID.not())
			out = nfCat(out, in.p.res(NF{sg}))
			continue
		}
		n := in.concreteInt("map-len", linV(at.lenv))
		cur := in.p.res(NF{sg})
		for i := int64(0); i < n; i++ {
			b := in.p.byteAt(cur, linC(i))
			if b.atom == 0 {
				out = emit(out, int64(b.c))
				continue
			}
			ba := in.p.atoms[b.atom]
			if ba.cls.and(nonID).empty() {
				out = nfCat(out, b.nf())
				continue
			}
			if in.p.containsFork("map-byte", ba, nonID, &B{k: BInRe, a: b.nf(), re: reClassStar(ba.cls.minus(nonID))}) {
				in.p.narrow(ba, nonID.not())
				out = nfCat(out, b.nf())
				continue
			}
			in.p.narrow(ba, nonID)
			var vals []byte
			var conds []*B
			for c := 0; c < 0x80; c++ {
				if ba.cls.has(byte(c)) && nonID.has(byte(c)) {
					vals = append(vals, byte(c))
					conds = append(conds, in.p.strEq(b.nf(), nfLit(string([]byte{byte(c)}))))
				}
			}
			c := vals[in.p.fork("map-value", conds)]
			if m := res[c]; m >= 0 {
				out = nfCat(out, nfLit(string(rune(m))))
			}
		}
	}
	return StrV{out}
}


// digest: see the hash models.
func (in *Interp) digest(kind string, n int64, arg Value) Value {
	src := in.p.res(in.bytesContent(arg.(BytesV)))
	var out NF
	if src.isLit() {
		switch kind {
		case "md5":
			d := md5.Sum([]byte(src.litValue()))
			out = nfLit(string(d[:]))
		case "sha1":
			d := sha1.Sum([]byte(src.litValue()))
			out = nfLit(string(d[:]))
		default:
			d := sha256.Sum256([]byte(src.litValue()))
			out = nfLit(string(d[:]))
		}
	} else {
		key := kind + ":" + nfKey(src)
		if v, ok := in.p.digests[key]; ok {
			out = v
		} else {
			at := in.p.newAtom(in.p.uniq(kind), setAll, n, n)
			out = NF{{atom: at.id}}
			in.p.digests[key] = out
		}
	}
	return BytesV{o: in.newByteObj(out), off: linC(0), n: linC(n)}
}

// nfKey: a syntactic key of a resolved normal form (literal parts quoted, atoms by id).
func nfKey(n NF) string {
	var sb strings.Builder
	for _, sg := range n {
		if sg.atom == 0 {
			fmt.Fprintf(&sb, "%q", sg.lit)
		} else {
			fmt.Fprintf(&sb, "<a%d>", sg.atom)
		}
	}
	return sb.String()
}
