package main

// Engine: program loading, exploration driver (DFS over decision scripts with re-execution),
// violation bookkeeping.

import (
	"fmt"
	"io"
	"os"
	"runtime/debug"
	"strings"
	"sync"
	"sync/atomic"
	"time"
	"go/types"

	"golang.org/x/tools/go/ssa"
)

type Stats struct {
	paths, completed, infeasible, panics, unsupported, unwinds, outside, deadlocks int64
	decisions, syntactic, smtQueries, unknownFeas, guessed                         int64
	assertsChecked, assertsSyntactic, assertsSMT, assertsUnknown                    int64
	diffed, disagreements                                                          int64
	steps                                                                          int64
}

type Config struct {
	repoDir          string
	verifDir         string
	scratch          string
	tier             string
	seed             int64
	workers          int
	unwind           int
	maxDepth         int
	maxSteps         int64
	maxPieces        int
	maxIntSplit      int
	maxPaths         int64
	capFast          int
	capFastImportant int
	capSlow          int
	diff             bool
	dumpQueries      bool
	verbose          bool
	witnessMax       int
	guessTries       int
	noNative         bool
	stats            *Stats
	deadline         time.Time
	grace            time.Duration
}

type Engine struct {
	cfg    *Config
	prog   *ssa.Program
	mainPkg *ssa.Package
	pkgs   map[string]*ssa.Package
	rtPath string
	stats  *Stats
	logw   io.Writer
	harnessFn sync.Map
	overlayJSON string
	modPath string
	errorStringType types.Type
	ioEOF, ioUnexpectedEOF, bufioErrInvalidUnreadByte, bufioErrBufferFull *ssa.Global
}

// Violation is a failed assertion (or panic, deadlock, race) with a model.
type Violation struct {
	Harness   string            `json:"harness"`
	Property  string            `json:"property"`
	Label     string            `json:"label"`
	Known     []string          `json:"known_tags,omitempty"`
	Over      bool              `json:"over_approximated_path,omitempty"`
	Case      *ReplayCase       `json:"case"`
	Alts      []*ReplayCase     `json:"-"` // further candidate inputs (over-approximated paths only)
	Count     int               `json:"count"`
	Confirmed string            `json:"native"` // "reproduced", "not-reproduced", "not-run"
	NativeOut string            `json:"native_detail,omitempty"`
	File      string            `json:"-"`
}

type PathResult struct {
	kind     string
	detail   string
	script   []int
	asserts  []assertRec
	steps    int64
	witness  *ReplayCase
	expectObs []obsOut
	notes    []string
}

type obsOut struct {
	Label string `json:"label"`
	V     string `json:"v"`
}

type HarnessRun struct {
	eng     *Engine
	spec    *HarnessSpec
	fn      *ssa.Function
	mu      sync.Mutex
	cond    *sync.Cond
	queue   [][]int
	busy    int
	stopped bool
	// results
	viol       map[string]*Violation
	results    []*PathResult
	incon      []string
	reachCount map[string]int64
	assertStat map[string]*[4]int64 // holds-syntactic, holds-smt, violated, unknown
	funcs      map[string]int64
	outsideN   map[string]int64
	races      map[string]bool
	witnesses  []*PathResult
	npaths     int64
	samples    []string
	t0         time.Time
	deadline   time.Time
}

func (h *HarnessRun) push(script []int) {
	h.mu.Lock()
	h.queue = append(h.queue, script)
	h.mu.Unlock()
	h.cond.Signal()
}

func (h *HarnessRun) pop() ([]int, bool) {
	h.mu.Lock()
	defer h.mu.Unlock()
	for len(h.queue) == 0 {
		if h.busy == 0 || h.stopped {
			h.cond.Broadcast()
			return nil, false
		}
		h.cond.Wait()
	}
	if h.stopped {
		return nil, false
	}
	s := h.queue[len(h.queue)-1]
	h.queue = h.queue[:len(h.queue)-1]
	h.busy++
	return s, true
}

func (h *HarnessRun) done() {
	h.mu.Lock()
	h.busy--
	if h.busy == 0 && len(h.queue) == 0 {
		h.cond.Broadcast()
	}
	h.mu.Unlock()
}

func (h *HarnessRun) inconclusive(msg string) {
	h.mu.Lock()
	defer h.mu.Unlock()
	for _, m := range h.incon {
		if m == msg {
			return
		}
	}
	if len(h.incon) < 50 {
		h.incon = append(h.incon, msg)
	}
}

func (eng *Engine) runHarness(spec *HarnessSpec) *HarnessRun {
	fn := eng.mainPkg.Func(spec.Func)
	h := &HarnessRun{eng: eng, spec: spec, fn: fn, viol: map[string]*Violation{}, reachCount: map[string]int64{},
		assertStat: map[string]*[4]int64{}, funcs: map[string]int64{}, outsideN: map[string]int64{}, races: map[string]bool{}, t0: time.Now()}
	h.cond = sync.NewCond(&h.mu)
	// every harness configuration gets to run: when the check's time budget is (nearly) used up by an earlier configuration,
	// the later ones still get a quarter of it each, so that what they would report is not lost (the verdict stays
	// inconclusive unless one of them reports a violation)
	h.deadline = eng.cfg.deadline
	if !eng.cfg.deadline.IsZero() && eng.cfg.grace > 0 && time.Now().Add(eng.cfg.grace).After(eng.cfg.deadline) {
		h.deadline = time.Now().Add(eng.cfg.grace)
	}
	if fn == nil {
		h.incon = append(h.incon, "harness function "+spec.Func+" not found (overlay build?)")
		return h
	}
	h.queue = [][]int{{}}
	var wg sync.WaitGroup
	for w := 0; w < eng.cfg.workers; w++ {
		wg.Add(1)
		go func() {
			defer wg.Done()
			pf := &Portfolio{cfg: eng.cfg}
			defer pf.close()
			for {
				script, ok := h.pop()
				if !ok {
					return
				}
				h.runPath(pf, script)
				h.done()
			}
		}()
	}
	wg.Wait()
	return h
}

func (h *HarnessRun) runPath(pf *Portfolio, script []int) {
	eng := h.eng
	n := atomic.AddInt64(&h.npaths, 1)
	atomic.AddInt64(&eng.stats.paths, 1)
	if n > eng.cfg.maxPaths {
		h.inconclusive(fmt.Sprintf("path budget %d exceeded: bounds too large for this tier", eng.cfg.maxPaths))
		h.mu.Lock()
		h.stopped = true
		h.mu.Unlock()
		h.cond.Broadcast()
		return
	}
	if !h.deadline.IsZero() && time.Now().After(h.deadline) {
		h.inconclusive("time budget exceeded before the exploration finished")
		h.mu.Lock()
		h.stopped = true
		h.mu.Unlock()
		h.cond.Broadcast()
		return
	}
	if n%2000 == 0 {
		h.mu.Lock()
		ql := len(h.queue)
		h.mu.Unlock()
		fmt.Fprintf(os.Stderr, "  ... %s: %d paths, queue %d, smt %d, %.0fs\n", h.spec.Func, n, ql, atomic.LoadInt64(&eng.stats.smtQueries), time.Since(h.t0).Seconds())
	}
	p := newPath(eng, pf, h, script)
	p.globals = map[*ssa.Global]*Cell{}
	p.byteVars = map[int]int{}
	p.byteCells = map[*Cell]byteCellRef{}
	p.params = h.spec.Params
	p.sched = newSched(p)
	in := &Interp{p: p, eng: eng}
	p.sched.mainGoroutine(in)
	res := &PathResult{}
	func() {
		defer func() {
			if r := recover(); r != nil {
				switch x := r.(type) {
				case pathAbort:
					res.kind, res.detail = x.kind, x.detail
				default:
					res.kind = "internal"
					res.detail = fmt.Sprintf("%v\n%s", r, debug.Stack())
				}
			}
			p.sched.finish()
		}()
		eng.runInits(in)
		in.callFunction(h.fn, nil, nil)
		res.kind = "end"
	}()
	res.script = p.script
	res.asserts = p.asserts
	res.steps = p.steps
	res.notes = p.notes
	atomic.AddInt64(&eng.stats.steps, p.steps)
	switch res.kind {
	case "end":
		atomic.AddInt64(&eng.stats.completed, 1)
	case "infeasible":
		atomic.AddInt64(&eng.stats.infeasible, 1)
	case "panic":
		atomic.AddInt64(&eng.stats.panics, 1)
	case "unsupported", "internal":
		atomic.AddInt64(&eng.stats.unsupported, 1)
		h.inconclusive(res.kind + ": " + firstLines(res.detail, 12))
	case "unwind":
		atomic.AddInt64(&eng.stats.unwinds, 1)
		h.inconclusive("UNWIND: " + res.detail)
	case "outside":
		atomic.AddInt64(&eng.stats.outside, 1)
	case "deadlock":
		atomic.AddInt64(&eng.stats.deadlocks, 1)
	}
	if p.mon != nil {
		for _, r := range p.mon.reports() {
			p.recordViolation("race: "+r, true)
		}
	}
	// a reachability end-marker
	h.mu.Lock()
	for k := range p.reached {
		h.reachCount[k]++
	}
	for _, a := range p.asserts {
		st := h.assertStat[a.label]
		if st == nil {
			st = &[4]int64{}
			h.assertStat[a.label] = st
		}
		switch {
		case a.result == "holds" && a.how == "syntactic":
			st[0]++
		case a.result == "holds":
			st[1]++
		case a.result == "violated":
			st[2]++
		default:
			st[3]++
		}
	}
	for k, v := range p.funcsSeen {
		h.funcs[k] += v
	}
	if res.kind == "outside" {
		h.outsideN[res.detail]++
	}
	h.mu.Unlock()
	// witness for native validation
	if (res.kind == "end" || res.kind == "panic") && !eng.cfg.noNative && !h.spec.NoWitness {
		h.mu.Lock()
		take := len(h.witnesses) < eng.cfg.witnessMax
		h.mu.Unlock()
		if take {
			if w := p.buildWitness(res.kind == "panic"); w != nil {
				res.witness = w
				h.mu.Lock()
				h.witnesses = append(h.witnesses, res)
				h.mu.Unlock()
			}
		}
	}
	if eng.cfg.verbose {
		fmt.Fprintf(eng.logw, "path %d %s %s script=%v steps=%d q=%d\n", n, res.kind, firstLines(res.detail, 1), res.script, p.steps, p.nQueries)
	}
	if res.kind == "end" || res.kind == "panic" {
		h.mu.Lock()
		if len(h.samples) < 6 {
			if w := res.witness; w != nil {
				h.samples = append(h.samples, w.pretty())
			}
		}
		h.mu.Unlock()
	}
}

func firstLines(s string, n int) string {
	parts := strings.SplitN(s, "\n", n+1)
	if len(parts) > n {
		parts = parts[:n]
	}
	return strings.Join(parts, "\n")
}

// runInits executes package initialisers of the repository package and the shim packages.
func (eng *Engine) runInits(in *Interp) {
	if f := eng.mainPkg.Func("init"); f != nil {
		in.callInit(f)
	}
}

// callInit runs a synthesized package init, skipping the initialisation of other packages.
func (in *Interp) callInit(f *ssa.Function) {
	in.initMode = true
	in.callFunction(f, nil, nil)
	in.initMode = false
}

var stdAllowed = map[string]bool{
	"errors": true, "sort": true, "slices": true, "unicode/utf8": true,
	"unicode": true, "cmp": true, "math/bits": true, "internal/stringslite": true, "internal/bytealg": true,
	"internal/itoa": true,
}

func (eng *Engine) allowed(fn *ssa.Function) bool {
	pkg := fn.Pkg
	if pkg == nil {
		// synthetic wrappers, instantiations
		if fn.Origin() != nil && fn.Origin().Pkg != nil {
			pkg = fn.Origin().Pkg
		} else if fn.Synthetic != "" {
			return true
		} else {
			return true
		}
	}
	path := pkg.Pkg.Path()
	if path == eng.modPath || strings.HasPrefix(path, eng.modPath+"/") {
		return true
	}
	return stdAllowed[path]
}

func (eng *Engine) logf(format string, a ...interface{}) {
	fmt.Fprintf(os.Stderr, format+"\n", a...)
}

// isHarnessFn reports whether a function comes from a harness or shim file of the overlay.
func (eng *Engine) isHarnessFn(fn *ssa.Function) bool {
	if v, ok := eng.harnessFn.Load(fn); ok {
		return v.(bool)
	}
	f := fn
	for f.Parent() != nil {
		f = f.Parent()
	}
	res := false
	if f.Pos().IsValid() {
		name := eng.prog.Fset.Position(f.Pos()).Filename
		res = strings.Contains(name, "zz_verif_") || strings.Contains(name, "/zzverif/")
	}
	eng.harnessFn.Store(fn, res)
	return res
}
