package main

// Race monitor: vector clocks (edges: go, channel send->receive, Quiesce) and lock sets.
// Two accesses to one location from different goroutines, at least one a write, unordered by
// happens-before and with disjoint lock sets, are a data race — for every schedule.

import (
	"fmt"
	"sort"
	"strings"
)

type VC map[int]int

func (v VC) copy() VC {
	c := make(VC, len(v))
	for k, x := range v {
		c[k] = x
	}
	return c
}

func (v VC) tick(g int) VC {
	if v == nil {
		v = VC{}
	}
	v[g]++
	return v
}

func (v VC) join(o VC) VC {
	if v == nil {
		v = VC{}
	}
	for k, x := range o {
		if x > v[k] {
			v[k] = x
		}
	}
	return v
}

type accessRec struct {
	g     int
	gname string
	epoch int
	vc    VC
	write bool
	locks []*Cell
	where string
	repo  bool
}

type Monitor struct {
	cells   map[*Cell][]accessRec
	maps    map[*MapObj][]accessRec
	races   map[string]bool
	order   map[[2]*Cell]string // lock order edges
	names   map[*Cell]string
	cycles  map[string]bool
	mutexVC map[*Cell]VC
}

func newMonitor() *Monitor {
	return &Monitor{cells: map[*Cell][]accessRec{}, maps: map[*MapObj][]accessRec{}, races: map[string]bool{},
		order: map[[2]*Cell]string{}, names: map[*Cell]string{}, cycles: map[string]bool{}, mutexVC: map[*Cell]VC{}}
}

func (in *Interp) whereNow() (string, bool) {
	fr := in.top
	if fr == nil {
		return "?", false
	}
	pos := in.eng.prog.Fset.Position(fr.pos)
	f := shortFile(pos.Filename)
	repo := strings.HasPrefix(pos.Filename, in.eng.cfg.repoDir+"/") && !strings.Contains(pos.Filename, "zzverif") && !strings.HasPrefix(f, "zz_verif")
	return fmt.Sprintf("%s:%d(%s)", f, pos.Line, fr.fn.Name()), repo
}

func (m *Monitor) rec(in *Interp, write bool) accessRec {
	g := in.g
	var locks []*Cell
	for l := range g.locks {
		locks = append(locks, l)
	}
	w, repo := in.whereNow()
	if g.vc == nil {
		g.vc = VC{}
	}
	if g.vc[g.id] == 0 {
		g.vc[g.id] = 1
	}
	return accessRec{g: g.id, gname: g.name, epoch: g.vc[g.id], vc: g.vc.copy(), write: write, locks: locks, where: w, repo: repo}
}

func (m *Monitor) check(kind string, prev []accessRec, cur accessRec) {
	for _, p := range prev {
		if p.g == cur.g || (!p.write && !cur.write) {
			continue
		}
		if cur.vc[p.g] >= p.epoch { // p happens-before cur
			continue
		}
		shared := false
		for _, a := range p.locks {
			for _, b := range cur.locks {
				if a == b {
					shared = true
				}
			}
		}
		if shared || !p.repo || !cur.repo {
			continue
		}
		a, b := rw(p.write)+"@"+p.where, rw(cur.write)+"@"+cur.where
		if a > b {
			a, b = b, a
		}
		m.races[fmt.Sprintf("RACE on %s: %s || %s", kind, a, b)] = true
	}
}

func rw(w bool) string {
	if w {
		return "write"
	}
	return "read"
}

func keep(prev []accessRec, cur accessRec) []accessRec {
	// keep the last read and last write per goroutine
	out := prev[:0]
	for _, p := range prev {
		if p.g == cur.g && p.write == cur.write {
			continue
		}
		out = append(out, p)
	}
	return append(out, cur)
}

func (p *Path) access(in *Interp, c *Cell, write bool) {
	if p.mon == nil || len(p.sched.gs) < 2 {
		return
	}
	cur := p.mon.rec(in, write)
	prev := p.mon.cells[c]
	p.mon.check("memory cell", prev, cur)
	p.mon.cells[c] = keep(prev, cur)
}

func (p *Path) accessMap(in *Interp, m *MapObj, write bool) {
	if p.mon == nil || len(p.sched.gs) < 2 {
		return
	}
	cur := p.mon.rec(in, write)
	prev := p.mon.maps[m]
	p.mon.check("map", prev, cur)
	p.mon.maps[m] = keep(prev, cur)
}

// lockOrder records "held -> acquired" edges and reports cycles.
func (m *Monitor) lockOrder(in *Interp, acquired *Cell) {
	w, _ := in.whereNow()
	for held := range in.g.locks {
		if held == acquired {
			continue
		}
		m.order[[2]*Cell{held, acquired}] = w
		if w2, ok := m.order[[2]*Cell{acquired, held}]; ok {
			a, b := w, w2
			if a > b {
				a, b = b, a
			}
			m.cycles["LOCK-ORDER cycle: "+a+" vs "+b] = true
		}
	}
}

func (m *Monitor) reports() []string {
	var out []string
	for r := range m.races {
		out = append(out, r)
	}
	for r := range m.cycles {
		out = append(out, r)
	}
	sort.Strings(out)
	return out
}
