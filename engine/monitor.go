package main

// Race monitor: vector clocks (edges: go, channel send->receive, Quiesce) and lock sets.
// Two accesses to one location from different goroutines, at least one a write, unordered by
// happens-before and with disjoint lock sets, are a data race — for every schedule.

import (
	"fmt"
	"os"
	"sort"
	"strings"
)

type VC map[int]int

func (v VC) copy() VC {
	c := make(VC, len(v))
	for k, x := range v {
		c[k] = x
	}
	return c
}

func (v VC) tick(g int) VC {
	if v == nil {
		v = VC{}
	}
	v[g]++
	return v
}

func (v VC) join(o VC) VC {
	if v == nil {
		v = VC{}
	}
	for k, x := range o {
		if x > v[k] {
			v[k] = x
		}
	}
	return v
}

type accessRec struct {
	g     int
	gname string
	epoch int
	vc    VC
	write bool
	locks []*Cell
	where string
	repo  bool
	init  bool // a write made while the location was still exclusive to its first goroutine
}

type Monitor struct {
	cells   map[*Cell][]accessRec
	maps    map[*MapObj][]accessRec
	bufs    map[*ByteObj][]accessRec
	races   map[string]bool
	order   map[[2]*Cell]string // lock order edges
	names   map[*Cell]string
	cycles  map[string]bool
	mutexVC map[*Cell]VC
	mutexHB bool // treat unlock->lock as happens-before (conservative mode)
	// Eraser-style initialisation phase: until a second goroutine touches a location, writes of
	// its first owner are initialisation (publishing an object through a mutex-protected
	// structure and reading its fields afterwards is not a race)
	owner   map[interface{}]int
	shared  map[interface{}]bool
}

func newMonitor() *Monitor {
	return &Monitor{cells: map[*Cell][]accessRec{}, maps: map[*MapObj][]accessRec{}, bufs: map[*ByteObj][]accessRec{}, races: map[string]bool{},
		order: map[[2]*Cell]string{}, names: map[*Cell]string{}, cycles: map[string]bool{}, mutexVC: map[*Cell]VC{}, owner: map[interface{}]int{}, shared: map[interface{}]bool{}}
}

func (in *Interp) whereNow() (string, bool) {
	fr := in.top
	if fr == nil {
		return "?", false
	}
	pos := in.eng.prog.Fset.Position(fr.pos)
	f := shortFile(pos.Filename)
	repo := strings.HasPrefix(pos.Filename, in.eng.cfg.repoDir+"/") && !strings.Contains(pos.Filename, "zzverif") && !strings.HasPrefix(f, "zz_verif")
	return fmt.Sprintf("%s:%d(%s)", f, pos.Line, fr.fn.Name()), repo
}

func (m *Monitor) rec(in *Interp, write bool) accessRec {
	g := in.g
	var locks []*Cell
	for l := range g.locks {
		locks = append(locks, l)
	}
	w, repo := in.whereNow()
	if g.vc == nil {
		g.vc = VC{}
	}
	if g.vc[g.id] == 0 {
		g.vc[g.id] = 1
	}
	return accessRec{g: g.id, gname: g.name, epoch: g.vc[g.id], vc: g.vc.copy(), write: write, locks: locks, where: w, repo: repo}
}

func (m *Monitor) check(kind string, prev []accessRec, cur accessRec) {
	for _, p := range prev {
		if p.g == cur.g || (!p.write && !cur.write) {
			continue
		}
		if p.write && p.init {
			continue // writes of the initialisation phase do not count (Eraser's exclusive state)
		}
		if cur.vc[p.g] >= p.epoch { // p happens-before cur
			continue
		}
		shared := false
		for _, a := range p.locks {
			for _, b := range cur.locks {
				if a == b {
					shared = true
				}
			}
		}
		if shared || !p.repo || !cur.repo {
			continue
		}
		a, b := rw(p.write)+"@"+p.where, rw(cur.write)+"@"+cur.where
		if a > b {
			a, b = b, a
		}
		m.races[fmt.Sprintf("RACE on %s: %s || %s", kind, a, b)] = true
	}
}

func rw(w bool) string {
	if w {
		return "write"
	}
	return "read"
}

func lockKey(locks []*Cell) string {
	ids := make([]int, len(locks))
	for i, l := range locks {
		ids[i] = l.id
	}
	sort.Ints(ids)
	return fmt.Sprint(ids)
}

func keep(prev []accessRec, cur accessRec) []accessRec {
	// keep the last read and the last write per goroutine AND per lock set: an unlocked access
	// must not be forgotten because the same goroutine later accessed the location under a lock
	ck := lockKey(cur.locks)
	out := prev[:0]
	for _, p := range prev {
		if p.g == cur.g && p.write == cur.write && lockKey(p.locks) == ck {
			continue
		}
		out = append(out, p)
	}
	return append(out, cur)
}

func (p *Path) access(in *Interp, c *Cell, write bool) {
	if p.mon == nil || len(p.sched.gs) < 2 {
		return
	}
	cur := p.mon.rec(in, write)
	p.mon.phase(c, &cur)
	prev := p.mon.cells[c]
	p.mon.check("memory cell", prev, cur)
	p.mon.cells[c] = keep(prev, cur)
}

func (p *Path) accessMap(in *Interp, m *MapObj, write bool) {
	if p.mon == nil || len(p.sched.gs) < 2 {
		return
	}
	cur := p.mon.rec(in, write)
	p.mon.phase(m, &cur)
	prev := p.mon.maps[m]
	if os.Getenv("VERIF_DEBUG_RACE") != "" && strings.Contains(cur.where, os.Getenv("VERIF_DEBUG_RACE")) {
		fmt.Fprintf(os.Stderr, "ACCESS map g=%d(%s) %s %s epoch=%d vc=%v locks=%d prev=%d\n", cur.g, cur.gname, rw(write), cur.where, cur.epoch, cur.vc, len(cur.locks), len(prev))
	}
	p.mon.check("map", prev, cur)
	p.mon.maps[m] = keep(prev, cur)
}

// lockOrder records "held -> acquired" edges and reports cycles.
func (m *Monitor) lockOrder(in *Interp, acquired *Cell) {
	w, _ := in.whereNow()
	for held := range in.g.locks {
		if held == acquired {
			continue
		}
		m.order[[2]*Cell{held, acquired}] = w
		if w2, ok := m.order[[2]*Cell{acquired, held}]; ok {
			a, b := w, w2
			if a > b {
				a, b = b, a
			}
			m.cycles["LOCK-ORDER cycle: "+a+" vs "+b] = true
		}
	}
}

func (m *Monitor) reports() []string {
	var out []string
	for r := range m.races {
		out = append(out, r)
	}
	for r := range m.cycles {
		out = append(out, r)
	}
	sort.Strings(out)
	return out
}

// phase tracks the exclusive (initialisation) phase of a location.
func (m *Monitor) phase(loc interface{}, cur *accessRec) {
	if m.shared[loc] {
		return
	}
	o, seen := m.owner[loc]
	if !seen {
		m.owner[loc] = cur.g
		o = cur.g
	}
	if o != cur.g {
		m.shared[loc] = true
		return
	}
	if cur.write {
		cur.init = true
	}
}

// whereRepo attributes an access made inside shim code (fakenet copying into a buffer the
// repository handed to it) to the nearest repository frame.
func (in *Interp) whereRepo() (string, bool) {
	for fr := in.top; fr != nil; fr = fr.caller {
		pos := in.eng.prog.Fset.Position(fr.pos)
		f := shortFile(pos.Filename)
		if strings.HasPrefix(pos.Filename, in.eng.cfg.repoDir+"/") && !strings.Contains(pos.Filename, "zzverif") && !strings.HasPrefix(f, "zz_verif") {
			return fmt.Sprintf("%s:%d(%s)", f, pos.Line, fr.fn.Name()), true
		}
		if strings.HasPrefix(f, "zz_verif") {
			return "", false // called from the harness: not an access of the repository
		}
	}
	return "", false
}

// accessBytes logs an access to the contents of a byte buffer. Buffers are handed over through a
// mutex-protected pool, so here happens-before includes mutex unlock -> lock.
func (p *Path) accessBytes(in *Interp, o *ByteObj, write bool) {
	if p.mon == nil || len(p.sched.gs) < 2 || o == nil {
		return
	}
	w, repo := in.whereRepo()
	if !repo {
		return
	}
	g := in.g
	if g.vcFull == nil {
		g.vcFull = VC{}
	}
	if g.vcFull[g.id] == 0 {
		g.vcFull[g.id] = 1
	}
	cur := accessRec{g: g.id, gname: g.name, epoch: g.vcFull[g.id], vc: g.vcFull.copy(), write: write, where: w, repo: true}
	prev := p.mon.bufs[o]
	for _, q := range prev {
		if q.g == cur.g || (!q.write && !cur.write) {
			continue
		}
		if cur.vc[q.g] >= q.epoch {
			continue
		}
		a, b := rw(q.write)+"@"+q.where, rw(cur.write)+"@"+cur.where
		if a > b {
			a, b = b, a
		}
		p.mon.races[fmt.Sprintf("RACE on buffer contents: %s || %s", a, b)] = true
	}
	p.mon.bufs[o] = keep(prev, cur)
}
