package main

// Regular expressions: Go regexp/syntax -> SMT-LIB RegLan (byte semantics), plus concrete matching.

import (
	"fmt"
	"regexp"
	"regexp/syntax"
	"strings"
	"sync"
)

// Re is a regular language over bytes with an SMT rendering and a concrete matcher.
type Re struct {
	key   string // unique text (used in caches)
	smt   string
	match func(s string) bool
	cls   *ByteSet // non-nil: the language is cls*
}

func reClassOf(r *Re) (ByteSet, bool) {
	if r.cls != nil {
		return *r.cls, true
	}
	return ByteSet{}, false
}

var reCache sync.Map

// reClassStar is cls*.
func reClassStar(cls ByteSet) *Re {
	key := fmt.Sprintf("cls*:%x", cls)
	if r, ok := reCache.Load(key); ok {
		return r.(*Re)
	}
	c2 := cls
	r := &Re{key: key, cls: &c2, smt: "(re.* " + smtClass(cls) + ")", match: func(s string) bool {
		for i := 0; i < len(s); i++ {
			if !cls.has(s[i]) {
				return false
			}
		}
		return true
	}}
	reCache.Store(key, r)
	return r
}

// rePrefix is lit followed by anything.
func rePrefix(lit string) *Re {
	return &Re{key: "pre:" + lit, smt: "(re.++ (str.to_re " + smtLit(lit) + ") (re.* " + smtClass(setAll) + "))",
		match: func(s string) bool { return strings.HasPrefix(s, lit) }}
}

func reSuffix(lit string) *Re {
	return &Re{key: "suf:" + lit, smt: "(re.++ (re.* " + smtClass(setAll) + ") (str.to_re " + smtLit(lit) + "))",
		match: func(s string) bool { return strings.HasSuffix(s, lit) }}
}

// reFold matches strings equal to lit under strings.EqualFold restricted to byte strings:
// ASCII letters fold; 'k'/'K' also match the Kelvin sign (E2 84 AA), 's'/'S' the long s (C5 BF).
func reFold(lit string) *Re {
	key := "fold:" + lit
	if r, ok := reCache.Load(key); ok {
		return r.(*Re)
	}
	var parts []string
	for i := 0; i < len(lit); i++ {
		c := lit[i]
		alts := []string{"(str.to_re " + smtChar(c) + ")"}
		lc := c | 0x20
		if lc >= 'a' && lc <= 'z' {
			alts = []string{"(str.to_re " + smtChar(lc) + ")", "(str.to_re " + smtChar(lc-0x20) + ")"}
			if lc == 'k' {
				alts = append(alts, "(str.to_re "+smtLit("\xe2\x84\xaa")+")")
			}
			if lc == 's' {
				alts = append(alts, "(str.to_re "+smtLit("\xc5\xbf")+")")
			}
		}
		if len(alts) == 1 {
			parts = append(parts, alts[0])
		} else {
			parts = append(parts, "(re.union "+strings.Join(alts, " ")+")")
		}
	}
	smt := "(str.to_re \"\")"
	if len(parts) == 1 {
		smt = parts[0]
	} else if len(parts) > 1 {
		smt = "(re.++ " + strings.Join(parts, " ") + ")"
	}
	r := &Re{key: key, smt: smt, match: func(s string) bool { return strings.EqualFold(s, lit) }}
	reCache.Store(key, r)
	return r
}

// reFromGo translates a Go regular expression. full=true: the whole string must match
// (used for generator atoms); full=false: unanchored search semantics of MatchString.
func reFromGo(pattern string, full bool) (*Re, error) {
	key := fmt.Sprintf("go:%v:%s", full, pattern)
	if r, ok := reCache.Load(key); ok {
		return r.(*Re), nil
	}
	tree, err := syntax.Parse(pattern, syntax.Perl)
	if err != nil {
		return nil, err
	}
	tree = tree.Simplify()
	anchoredL, anchoredR := full, full
	// strip top-level anchors
	subs := []*syntax.Regexp{tree}
	if tree.Op == syntax.OpConcat {
		subs = append([]*syntax.Regexp{}, tree.Sub...)
	}
	for len(subs) > 0 && (subs[0].Op == syntax.OpBeginText || subs[0].Op == syntax.OpBeginLine) {
		anchoredL = true
		subs = subs[1:]
	}
	for len(subs) > 0 && (subs[len(subs)-1].Op == syntax.OpEndText) {
		anchoredR = true
		subs = subs[:len(subs)-1]
	}
	var parts []string
	for _, s := range subs {
		t, err := reSMT(s)
		if err != nil {
			return nil, err
		}
		parts = append(parts, t)
	}
	pad := "(re.* " + smtClass(setAll) + ")"
	if !anchoredL {
		parts = append([]string{pad}, parts...)
	}
	if !anchoredR {
		parts = append(parts, pad)
	}
	smt := "(str.to_re \"\")"
	if len(parts) == 1 {
		smt = parts[0]
	} else if len(parts) > 1 {
		smt = "(re.++ " + strings.Join(parts, " ") + ")"
	}
	var goRe *regexp.Regexp
	if full {
		goRe, err = regexp.Compile(`^(?:` + pattern + `)$`)
	} else {
		goRe, err = regexp.Compile(pattern)
	}
	if err != nil {
		return nil, err
	}
	r := &Re{key: key, smt: smt, match: goRe.MatchString}
	reCache.Store(key, r)
	return r, nil
}

func runeClassToBytes(rs []rune) ByteSet {
	var s ByteSet
	for i := 0; i+1 < len(rs); i += 2 {
		lo, hi := rs[i], rs[i+1]
		for c := lo; c <= hi && c < 0x80; c++ {
			s.add(byte(c))
		}
		if hi >= 0x80 {
			s = s.or(setHigh)
		}
	}
	return s
}

func reSMT(r *syntax.Regexp) (string, error) {
	switch r.Op {
	case syntax.OpEmptyMatch:
		return "(str.to_re \"\")", nil
	case syntax.OpLiteral:
		var parts []string
		for _, c := range r.Rune {
			if c >= 0x80 {
				parts = append(parts, "(str.to_re "+smtLit(string(c))+")")
				continue
			}
			b := byte(c)
			if r.Flags&syntax.FoldCase != 0 && ((b|0x20) >= 'a' && (b|0x20) <= 'z') {
				parts = append(parts, "(re.union (str.to_re "+smtChar(b|0x20)+") (str.to_re "+smtChar((b|0x20)-0x20)+"))")
			} else {
				parts = append(parts, "(str.to_re "+smtChar(b)+")")
			}
		}
		if len(parts) == 1 {
			return parts[0], nil
		}
		return "(re.++ " + strings.Join(parts, " ") + ")", nil
	case syntax.OpCharClass:
		return smtClass(runeClassToBytes(r.Rune)), nil
	case syntax.OpAnyCharNotNL:
		s := setAll
		s.del('\n')
		return smtClass(s), nil
	case syntax.OpAnyChar:
		return smtClass(setAll), nil
	case syntax.OpCapture:
		return reSMT(r.Sub[0])
	case syntax.OpStar, syntax.OpPlus, syntax.OpQuest:
		t, err := reSMT(r.Sub[0])
		if err != nil {
			return "", err
		}
		op := map[syntax.Op]string{syntax.OpStar: "re.*", syntax.OpPlus: "re.+", syntax.OpQuest: "re.opt"}[r.Op]
		return "(" + op + " " + t + ")", nil
	case syntax.OpRepeat:
		t, err := reSMT(r.Sub[0])
		if err != nil {
			return "", err
		}
		if r.Max == -1 {
			return fmt.Sprintf("(re.++ ((_ re.^ %d) %s) (re.* %s))", r.Min, t, t), nil
		}
		return fmt.Sprintf("((_ re.loop %d %d) %s)", r.Min, r.Max, t), nil
	case syntax.OpConcat, syntax.OpAlternate:
		var parts []string
		for _, s := range r.Sub {
			t, err := reSMT(s)
			if err != nil {
				return "", err
			}
			parts = append(parts, t)
		}
		if len(parts) == 1 {
			return parts[0], nil
		}
		op := "re.++"
		if r.Op == syntax.OpAlternate {
			op = "re.union"
		}
		return "(" + op + " " + strings.Join(parts, " ") + ")", nil
	}
	return "", fmt.Errorf("unsupported regexp construct %v in %q", r.Op, r.String())
}
