package main

// Symbolic implementation of the rt API (see /verif/shim/rt/rt.go for the native one).

import (
	"fmt"
	"os"
	"strconv"
	"strings"
	"sync/atomic"

	"golang.org/x/tools/go/ssa"
)

var namedClasses = map[string]ByteSet{}

func init() {
	alnum := setRange('a', 'z').or(setRange('A', 'Z')).or(setDigits)
	namedClasses["digit"] = setDigits
	namedClasses["hex"] = setStr("0123456789abcdef")
	namedClasses["alpha"] = setRange('a', 'z').or(setRange('A', 'Z'))
	namedClasses["alnum"] = alnum
	namedClasses["token"] = alnum.or(setStr("-.!%*_+`'~"))
	namedClasses["host"] = alnum.or(setStr(".-"))
	namedClasses["any"] = setAll
	nocrlf := setAll
	nocrlf.del('\r')
	nocrlf.del('\n')
	namedClasses["nocrlf"] = nocrlf
	namedClasses["print"] = setRange(0x20, 0x7e)
	namedClasses["lower"] = setRange('a', 'z')
}

// parseClass parses a class specification: a named class or a bracket expression
// "[...]" with ranges a-z, escapes \xHH \r \n \t \\ \] \- and leading ^ for negation.
// Several specs can be combined: "token-[%]" removes, "host+[_]" adds.
func parseClass(spec string) (ByteSet, error) {
	spec = strings.TrimSpace(spec)
	// binary combinations, left to right
	depth := 0
	for i := len(spec) - 1; i > 0; i-- {
		switch spec[i] {
		case ']':
			depth++
		case '[':
			depth--
		case '-', '+':
			if depth == 0 && i+1 < len(spec) && spec[i+1] == '[' {
				l, err := parseClass(spec[:i])
				if err != nil {
					return ByteSet{}, err
				}
				r, err := parseClass(spec[i+1:])
				if err != nil {
					return ByteSet{}, err
				}
				if spec[i] == '-' {
					return l.minus(r), nil
				}
				return l.or(r), nil
			}
		}
	}
	if s, ok := namedClasses[spec]; ok {
		return s, nil
	}
	if len(spec) < 2 || spec[0] != '[' || spec[len(spec)-1] != ']' {
		return ByteSet{}, fmt.Errorf("bad class spec %q", spec)
	}
	body := spec[1 : len(spec)-1]
	neg := false
	if strings.HasPrefix(body, "^") {
		neg = true
		body = body[1:]
	}
	var bs []int // byte values, -1 marks a range dash
	for i := 0; i < len(body); i++ {
		c := body[i]
		if c == '\\' && i+1 < len(body) {
			i++
			switch body[i] {
			case 'x':
				if i+2 < len(body)+0 && i+2 <= len(body)-1+0 {
					v, err := strconv.ParseUint(body[i+1:i+3], 16, 8)
					if err != nil {
						return ByteSet{}, err
					}
					bs = append(bs, int(v))
					i += 2
				} else {
					return ByteSet{}, fmt.Errorf("bad \\x escape in %q", spec)
				}
			case 'r':
				bs = append(bs, '\r')
			case 'n':
				bs = append(bs, '\n')
			case 't':
				bs = append(bs, '\t')
			default:
				bs = append(bs, int(body[i]))
			}
			continue
		}
		if c == '-' && len(bs) > 0 && i+1 < len(body) {
			bs = append(bs, -1)
			continue
		}
		bs = append(bs, int(c))
	}
	var s ByteSet
	for i := 0; i < len(bs); i++ {
		if i+2 < len(bs) && bs[i+1] == -1 {
			for c := bs[i]; c <= bs[i+2]; c++ {
				s.add(byte(c))
			}
			i += 2
			continue
		}
		if bs[i] >= 0 {
			s.add(byte(bs[i]))
		}
	}
	if neg {
		s = s.not()
	}
	return s, nil
}

func (in *Interp) rtCall(fn *ssa.Function, a []Value) Value {
	p := in.p
	lit := func(i int) string { return in.litArg(a[i], "rt."+fn.Name()+" argument") }
	num := func(i int) int64 { return in.concreteInt("rt."+fn.Name()+" argument", in.asLin(a[i])) }
	switch fn.Name() {
	case "init":
		return nil
	case "Symbolic":
		return mkBool(true)
	case "Str":
		cls, err := parseClass(lit(1))
		if err != nil {
			in.unsupported("%v", err)
		}
		name := p.uniq(lit(0))
		at := p.newAtom(name, cls, num(2), num(3))
		at.input = true
		p.inputs = append(p.inputs, inputRec{name: name, kind: 's', atom: at.id})
		return StrV{p.res(NF{{atom: at.id}})}
	case "StrRe":
		re, err := reFromGo(lit(1), true)
		if err != nil {
			in.unsupported("rt.StrRe: %v", err)
		}
		name := p.uniq(lit(0))
		at := p.newAtom(name, setAll, 0, num(2))
		at.re = re
		at.input = true
		p.inputs = append(p.inputs, inputRec{name: name, kind: 's', atom: at.id})
		return StrV{NF{{atom: at.id}}}
	case "Dec":
		name := p.uniq(lit(0))
		at := p.newAtom(name, setDigits, 1, num(1))
		at.re = reCanonDec
		at.canon = true
		at.input = true
		p.inputs = append(p.inputs, inputRec{name: name, kind: 's', atom: at.id})
		return StrV{NF{{atom: at.id}}}
	case "Int":
		name := p.uniq(lit(0))
		v := p.newIVar(name, num(1), num(2))
		v.input = true
		if v.lo > v.hi {
			p.abort("infeasible", "empty integer range")
		}
		p.inputs = append(p.inputs, inputRec{name: name, kind: 'i', ivar: v.id})
		return IntV{p.resLin(linV(v.id))}
	case "Choice", "Bool":
		name := p.uniq(lit(0))
		n := 2
		if fn.Name() == "Choice" {
			n = int(num(1))
		}
		c := p.choice("rt."+name, n)
		p.inputs = append(p.inputs, inputRec{name: name, kind: 'c', val: c})
		if fn.Name() == "Bool" {
			return mkBool(c == 1)
		}
		return mkInt(int64(c))
	case "Param":
		v, ok := p.params[lit(0)]
		if !ok {
			in.unsupported("harness parameter %q not set for this tier", lit(0))
		}
		return mkInt(int64(v))
	case "Assume":
		b := p.simp(a[0].(BoolV).b)
		switch p.feasible(b) {
		case Unsat:
			p.abort("infeasible", "assumption cannot hold")
		case Unknown:
			p.maybeInfeasible = true
		}
		p.assume(b)
		return nil
	case "Assert":
		p.assertB(a[0].(BoolV).b, lit(1))
		return nil
	case "Fail":
		p.assertB(bFalse, lit(0))
		return nil
	case "Observe":
		p.observes = append(p.observes, obsRec{label: lit(0), s: p.res(nfOf(a[1]))})
		return nil
	case "ObserveInt":
		p.observes = append(p.observes, obsRec{label: lit(0), isInt: true, i: p.resLin(in.asLin(a[1]))})
		return nil
	case "Reach":
		p.reached[lit(0)] = true
		return nil
	case "Known":
		tag := lit(0)
		if in.p.branch("known:"+tag, a[1].(BoolV).b) {
			p.known = append(p.known, tag)
			return mkBool(true)
		}
		return mkBool(false)
	case "And", "Or":
		s := a[0].(SliceV)
		xs := make([]*B, s.n)
		for i := 0; i < s.n; i++ {
			xs[i] = s.a.e[s.off+i].v.(BoolV).b
		}
		if fn.Name() == "And" {
			return BoolV{bAnd(xs...)}
		}
		return BoolV{bOr(xs...)}
	case "Not":
		return BoolV{bNot(a[0].(BoolV).b)}
	case "Implies":
		return BoolV{bOr(bNot(a[0].(BoolV).b), a[1].(BoolV).b)}
	case "Quiesce":
		p.sched.quiesce(in)
		if p.mon != nil {
			// quiescence is observed by the harness: everything before happens-before what follows
			for _, g := range p.sched.gs {
				in.g.vc = in.g.vc.join(g.vc)
				in.g.vcFull = in.g.vcFull.join(g.vcFull)
			}
			in.g.vc = in.g.vc.tick(in.g.id)
			in.g.vcFull = in.g.vcFull.tick(in.g.id)
		}
		return nil
	case "MapOrder":
		p.mapPerm = in.p.simp(a[0].(BoolV).b).k == BTrue
		return nil
	case "DistinctUUIDs":
		p.uuidDistinct = true
		return nil
	case "Unwind":
		// the harness states a larger loop bound for repository code (a scenario with a big table)
		p.unwind = int(num(0))
		return nil
	case "Sched":
		p.sched.budget = int(num(0))
		p.sched.explore = in.p.simp(a[1].(BoolV).b).k == BTrue
		return nil
	case "SchedPolicy":
		p.sched.reverse = num(0) == 1
		if p.sched.reverse {
			p.sched.taken = append(p.sched.taken, "scheduling policy: when a goroutine blocks the runnable one with the next LOWER id runs")
		}
		return nil
	case "SelectChoice":
		p.selectChoice = in.p.simp(a[0].(BoolV).b).k == BTrue
		return nil
	case "RaceMonitor":
		if in.p.simp(a[0].(BoolV).b).k == BTrue {
			p.mon = newMonitor()
		} else {
			p.mon = nil
		}
		return nil
	case "AllocLimit":
		p.allocLimit = num(0)
		return nil
	case "UUIDCalls":
		return mkInt(int64(p.uuidCalls))
	case "Note":
		p.note(lit(0))
		return nil
	case "Setenv":
		if p.env == nil {
			p.env = map[string]NF{}
		}
		p.env[lit(0)] = p.res(nfOf(a[1]))
		return nil
	}
	in.unsupported("unknown rt function %s", fn.Name())
	return nil
}

// assertB checks an assertion on the current path.
func (p *Path) assertB(c *B, label string) {
	c = p.simp(c)
	atomic.AddInt64(&p.eng.stats.assertsChecked, 1)
	rec := assertRec{label: label}
	switch c.k {
	case BTrue:
		rec.result, rec.how = "holds", "syntactic"
		atomic.AddInt64(&p.eng.stats.assertsSyntactic, 1)
		p.asserts = append(p.asserts, rec)
		return
	}
	neg := bNot(c)
	var r Tri
	how := "syntactic"
	if c.k == BFalse {
		r = Sat
	} else {
		r, _, how = p.check([]*B{neg}, true, false, false, true)
		atomic.AddInt64(&p.eng.stats.assertsSMT, 1)
	}
	switch r {
	case Unsat:
		rec.result, rec.how = "holds", how
		p.asserts = append(p.asserts, rec)
		p.assume(c)
		return
	case Unknown:
		rec.result, rec.how = "unknown", how
		atomic.AddInt64(&p.eng.stats.assertsUnknown, 1)
		p.asserts = append(p.asserts, rec)
		p.h.inconclusive(fmt.Sprintf("assertion %q undecided (%s)", label, how))
		p.assume(c)
		return
	}
	// candidate violation: confirm under the exact string<->integer links with a full model
	if p.violate(label, []*B{neg}) {
		rec.result, rec.how = "violated", how
	} else {
		rec.result, rec.how = "holds", how+"+exact"
	}
	p.asserts = append(p.asserts, rec)
	// continue on the side where the assertion holds, if there is one
	if c.k == BFalse {
		p.abort("end-violated", "assertion "+label+" fails on every input of this path")
	}
	switch p.feasible(c) {
	case Unsat:
		p.abort("end-violated", "assertion "+label+" fails on every input of this path")
	}
	p.assume(c)
}

// violate records a violation of `label` if pc && extra is satisfiable exactly. Returns whether
// it is a (new or already known) violation.
func (p *Path) violate(label string, extra []*B) bool {
	key := label + "|" + strings.Join(p.known, ",")
	h := p.h
	h.mu.Lock()
	if v, ok := h.viol[key]; ok {
		v.Count++
		// a violation found on an over-approximated path (stale bufio view, ...) is only reported if a
		// native run shows it; whether it shows depends on the inputs, so keep a few more candidates
		// from other paths
		wantAlt := v.Over && p.overApprox && len(v.Alts) < 16 && v.Count%7 == 0
		h.mu.Unlock()
		if wantAlt {
			if r, m, _ := p.exactModel(extra); r == Sat {
				c := p.caseFromModel(&Model{p: p, m: m})
				h.mu.Lock()
				v.Alts = append(v.Alts, c)
				h.mu.Unlock()
			}
		}
		return true
	}
	h.mu.Unlock()
	r, m, how := p.exactModel(extra)
	switch r {
	case Unsat:
		return false
	case Unknown:
		h.inconclusive(fmt.Sprintf("violation candidate %q could not be confirmed exactly (%s)", label, how))
		return false
	}
	if os.Getenv("VERIF_DEBUG") != "" {
		mm := &Model{p: p, m: m}
		fmt.Fprintf(os.Stderr, "DEBUG violate %q how=%s script=%v\n", label, how, p.script)
		for k, v := range m {
			if k[0] != 'a' {
				fmt.Fprintf(os.Stderr, "   %s=%q", k, v)
			}
		}
		fmt.Fprintln(os.Stderr)
		for _, l := range p.links {
			fmt.Fprintf(os.Stderr, "  link v%d=%d [%d,%d] s=%v -> %q canon=%v\n", l.v, mm.ivar(l.v), p.ivars[l.v].lo, p.ivars[l.v].hi, p.res(l.s), mm.nf(p.res(l.s)), l.canon)
		}
		for _, in := range p.inputs {
			if in.kind == 's' {
				fmt.Fprintf(os.Stderr, "  input %s atom a%d -> %v = %q\n", in.name, in.atom, p.res(NF{{atom: in.atom}}), mm.atomVal(in.atom))
			}
		}
	}
	c := p.caseFromModel(&Model{p: p, m: m})
	v := &Violation{Harness: h.spec.Func, Property: h.spec.Property, Label: label, Known: append([]string{}, p.known...),
		Over: p.overApprox, Case: c, Count: 1, Confirmed: "not-run"}
	h.mu.Lock()
	if old, ok := h.viol[key]; ok {
		old.Count++
	} else {
		h.viol[key] = v
	}
	h.mu.Unlock()
	return true
}

func (p *Path) recordViolation(label string, _ bool) { p.violate(label, nil) }
func (p *Path) recordPanic(msg string)               { p.violate("panic: "+msg, nil) }
func (p *Path) recordDeadlock(msg string)            { p.violate("deadlock: "+msg, nil) }

func (p *Path) note(s string) {
	for _, n := range p.notes {
		if n == s {
			return
		}
	}
	p.notes = append(p.notes, s)
}

func (p *Path) newToken() int {
	p.tokenSeq++
	return p.tokenSeq
}

// checkAlloc enforces the allocation-proportionality limit set by rt.AllocLimit.
func (p *Path) checkAlloc(in *Interp, n Lin) {
	if p.allocLimit <= 0 {
		return
	}
	if !p.branch("alloc-limit", bLin(n.addC(-p.allocLimit), LE0)) {
		label := fmt.Sprintf("allocation larger than the limit of %d bytes before the bytes arrived", p.allocLimit)
		// prefer a model with a clearly excessive size, so that the native run shows it too
		big := bLin(linC(64 * p.allocLimit).sub(n), LE0)
		if p.feasible(big) == Sat {
			p.violate(label, []*B{big})
		} else {
			p.violate(label, nil)
		}
	}
}

// exactModel finds a model of pc && extra in which every string<->integer link holds exactly.
// The abstraction (interval facts only) is tried first; its model is checked concretely and, if
// a link is off, repaired by pinning; the exact str.to_int encoding is the last resort.
func (p *Path) exactModel(extra []*B) (Tri, map[string]string, string) {
	r, m, how := p.check(extra, false, false, true, true)
	if r != Sat || len(p.links) == 0 {
		return r, m, how
	}
	linkOK := func(m map[string]string) bool {
		mm := &Model{p: p, m: m}
		for _, l := range p.links {
			sv := mm.nf(p.res(l.s))
			act, err := strconv.ParseInt(sv, 10, 64)
			if err != nil || act != mm.ivar(l.v) {
				return false
			}
		}
		return true
	}
	if linkOK(m) {
		return Sat, m, how
	}
	mm := &Model{p: p, m: m}
	// repair 1: keep the strings, set the integers to their true values
	var pins []*B
	okPins := true
	for _, l := range p.links {
		sv := mm.nf(p.res(l.s))
		act, err := strconv.ParseInt(sv, 10, 64)
		if err != nil {
			okPins = false
			break
		}
		pins = append(pins, p.strEq(l.s, nfLit(sv)), bLin(linV(l.v).addC(-act), EQ0))
	}
	if okPins {
		if r2, m2, how2 := p.check(append(append([]*B{}, extra...), pins...), false, false, true, true); r2 == Sat && linkOK(m2) {
			return Sat, m2, how2 + "+pinned-strings"
		}
	}
	// repair 2: keep the integers, set the strings to their decimal text
	pins = nil
	for _, l := range p.links {
		v := mm.ivar(l.v)
		pins = append(pins, p.strEq(l.s, nfLit(strconv.FormatInt(v, 10))), bLin(linV(l.v).addC(-v), EQ0))
	}
	if r2, m2, how2 := p.check(append(append([]*B{}, extra...), pins...), false, false, true, true); r2 == Sat && linkOK(m2) {
		return Sat, m2, how2 + "+pinned-integers"
	}
	return p.check(extra, false, true, true, true)
}
