package main

// SMT solver processes over persistent pipes, with hard timeouts and a watchdog.

import (
	"bufio"
	"fmt"
	"io"
	"os/exec"
	"strconv"
	"strings"
	"sync"
	"sync/atomic"
	"time"
)

type Tri int

const (
	Unsat Tri = iota
	Sat
	Unknown
)

func (t Tri) String() string { return [...]string{"unsat", "sat", "unknown"}[t] }

type SolverKind int

const (
	Z3New SolverKind = iota
	CVC5
	Z3Old
)

var solverNames = [...]string{"z3-new", "cvc5", "z3"}

type Solver struct {
	kind  SolverKind
	cmd   *exec.Cmd
	in    io.WriteCloser
	out   *bufio.Reader
	tlim  int // ms, for cvc5 fixed at start
	alive bool
}

type SolverStats struct {
	queries  [3]int64
	unknown  [3]int64
	timeNs   [3]int64
	errors   int64
	restarts int64
}

var gStats SolverStats

func startSolver(kind SolverKind, tlimMs int) (*Solver, error) {
	var cmd *exec.Cmd
	switch kind {
	case Z3New:
		cmd = exec.Command("z3-new", "-in")
	case Z3Old:
		cmd = exec.Command("/usr/bin/z3", "-in")
	case CVC5:
		cmd = exec.Command("cvc5", "--incremental", "--lang=smt2", "--strings-exp", "--produce-models", fmt.Sprintf("--tlimit-per=%d", tlimMs))
	}
	in, err := cmd.StdinPipe()
	if err != nil {
		return nil, err
	}
	out, err := cmd.StdoutPipe()
	if err != nil {
		return nil, err
	}
	cmd.Stderr = nil
	if err := cmd.Start(); err != nil {
		return nil, err
	}
	return &Solver{kind: kind, cmd: cmd, in: in, out: bufio.NewReaderSize(out, 1<<16), tlim: tlimMs, alive: true}, nil
}

func (s *Solver) kill() {
	if s.alive {
		s.alive = false
		s.in.Close()
		s.cmd.Process.Kill()
		go s.cmd.Wait()
	}
}

// readSexp reads one complete top-level answer: either an atom line (sat/unsat/unknown) or a
// balanced s-expression possibly spanning lines.
func (s *Solver) readSexp() (string, error) {
	var sb strings.Builder
	depth := 0
	inStr := false
	started := false
	for {
		line, err := s.out.ReadString('\n')
		if err != nil {
			return sb.String(), err
		}
		for i := 0; i < len(line); i++ {
			c := line[i]
			if inStr {
				if c == '"' {
					inStr = false
				}
				continue
			}
			switch c {
			case '"':
				inStr = true
				started = true
			case '(':
				depth++
				started = true
			case ')':
				depth--
			case ' ', '\t', '\n', '\r':
			default:
				started = true
			}
		}
		sb.WriteString(line)
		if started && depth <= 0 && !inStr {
			return strings.TrimSpace(sb.String()), nil
		}
	}
}

// query sends a full problem (declarations + assertions, no check-sat) and returns the verdict
// and, if sat and vars are requested, their values.
func (s *Solver) query(body string, vars []string, tlimMs int) (Tri, map[string]string, error) {
	t0 := time.Now()
	defer func() {
		atomic.AddInt64(&gStats.queries[s.kind], 1)
		atomic.AddInt64(&gStats.timeNs[s.kind], int64(time.Since(t0)))
	}()
	var pre string
	switch s.kind {
	case Z3New, Z3Old:
		pre = fmt.Sprintf("(reset)\n(set-option :timeout %d)\n", tlimMs)
	case CVC5:
		pre = "(reset)\n(set-logic ALL)\n"
	}
	done := make(chan struct{})
	var timedOut int32
	go func() {
		select {
		case <-done:
		case <-time.After(time.Duration(tlimMs)*time.Millisecond + 3*time.Second):
			atomic.StoreInt32(&timedOut, 1)
			s.kill()
		}
	}()
	defer close(done)
	if _, err := io.WriteString(s.in, pre+body+"(check-sat)\n"); err != nil {
		s.kill()
		return Unknown, nil, err
	}
	ans, err := s.readSexp()
	if err != nil {
		s.kill()
		if atomic.LoadInt32(&timedOut) == 1 {
			atomic.AddInt64(&gStats.unknown[s.kind], 1)
			return Unknown, nil, nil
		}
		return Unknown, nil, fmt.Errorf("solver %s died: %v (%s)", solverNames[s.kind], err, ans)
	}
	for strings.HasPrefix(ans, "(error") || strings.Contains(ans, "(error") {
		// drain: an error line may precede the verdict
		atomic.AddInt64(&gStats.errors, 1)
		if strings.HasSuffix(ans, "sat") || strings.HasSuffix(ans, "unknown") {
			return Unknown, nil, fmt.Errorf("solver error: %s", ans)
		}
		next, err2 := s.readSexp()
		if err2 != nil {
			s.kill()
			return Unknown, nil, fmt.Errorf("solver error: %s", ans)
		}
		if next == "sat" || next == "unsat" || next == "unknown" {
			return Unknown, nil, fmt.Errorf("solver error: %s", ans)
		}
		ans = next
	}
	switch ans {
	case "unsat":
		return Unsat, nil, nil
	case "sat":
		if len(vars) == 0 {
			return Sat, nil, nil
		}
		if _, err := io.WriteString(s.in, "(get-value ("+strings.Join(vars, " ")+"))\n"); err != nil {
			s.kill()
			return Sat, nil, err
		}
		mv, err := s.readSexp()
		if err != nil {
			s.kill()
			return Sat, nil, err
		}
		if strings.Contains(mv, "(error") {
			return Sat, nil, fmt.Errorf("get-value: %s", mv)
		}
		m, err := parseModel(mv)
		return Sat, m, err
	default:
		atomic.AddInt64(&gStats.unknown[s.kind], 1)
		return Unknown, nil, nil
	}
}

// parseModel parses ((name value) ...) with string / integer values.
func parseModel(s string) (map[string]string, error) {
	m := map[string]string{}
	i := 0
	skip := func() {
		for i < len(s) && (s[i] == ' ' || s[i] == '\n' || s[i] == '\t' || s[i] == '\r') {
			i++
		}
	}
	expect := func(c byte) bool {
		skip()
		if i < len(s) && s[i] == c {
			i++
			return true
		}
		return false
	}
	if !expect('(') {
		return nil, fmt.Errorf("bad model %q", s)
	}
	for {
		skip()
		if i >= len(s) || s[i] == ')' {
			break
		}
		if !expect('(') {
			return nil, fmt.Errorf("bad model entry at %d in %q", i, s)
		}
		skip()
		j := i
		for j < len(s) && s[j] != ' ' && s[j] != '\n' {
			j++
		}
		name := s[i:j]
		i = j
		skip()
		if i < len(s) && s[i] == '"' {
			i++
			var sb strings.Builder
			for i < len(s) {
				if s[i] == '"' {
					if i+1 < len(s) && s[i+1] == '"' {
						sb.WriteByte('"')
						i += 2
						continue
					}
					i++
					break
				}
				sb.WriteByte(s[i])
				i++
			}
			m[name] = "s" + smtUnescape(sb.String())
		} else {
			// integer: digits or (- digits)
			depth := 0
			j := i
			for j < len(s) {
				if s[j] == '(' {
					depth++
				} else if s[j] == ')' {
					if depth == 0 {
						break
					}
					depth--
				}
				j++
			}
			v := strings.TrimSpace(s[i:j])
			v = strings.ReplaceAll(v, "(", "")
			v = strings.ReplaceAll(v, ")", "")
			v = strings.ReplaceAll(v, " ", "")
			m[name] = "i" + v
			i = j
		}
		if !expect(')') {
			return nil, fmt.Errorf("bad model entry end at %d in %q", i, s)
		}
	}
	return m, nil
}

func smtUnescape(s string) string {
	var out []byte
	for i := 0; i < len(s); i++ {
		if s[i] == '\\' && i+1 < len(s) && s[i+1] == 'u' {
			if i+2 < len(s) && s[i+2] == '{' {
				j := strings.IndexByte(s[i+3:], '}')
				if j >= 0 {
					if v, err := strconv.ParseUint(s[i+3:i+3+j], 16, 32); err == nil {
						out = append(out, byte(v))
						i = i + 3 + j
						continue
					}
				}
			} else if i+5 < len(s) {
				if v, err := strconv.ParseUint(s[i+2:i+6], 16, 32); err == nil {
					out = append(out, byte(v))
					i += 5
					continue
				}
			}
		}
		if s[i] == '\\' && i+3 < len(s) && s[i+1] == 'x' {
			if v, err := strconv.ParseUint(s[i+2:i+4], 16, 8); err == nil {
				out = append(out, byte(v))
				i += 3
				continue
			}
		}
		out = append(out, s[i])
	}
	return string(out)
}

// Portfolio is the per-worker set of solver processes.
type Portfolio struct {
	solvers [3]*Solver
	cfg     *Config
}

var queryCache sync.Map // body -> Tri (only definitive answers)

type cacheStats struct{ hits, misses int64 }

var gCache cacheStats

func (pf *Portfolio) get(kind SolverKind, tlim int) (*Solver, error) {
	s := pf.solvers[kind]
	if s != nil && s.alive && (kind != CVC5 || s.tlim == tlim) {
		return s, nil
	}
	if s != nil {
		s.kill()
		atomic.AddInt64(&gStats.restarts, 1)
	}
	s, err := startSolver(kind, tlim)
	if err != nil {
		return nil, err
	}
	pf.solvers[kind] = s
	return s, nil
}

func (pf *Portfolio) close() {
	for _, s := range pf.solvers {
		if s != nil {
			s.kill()
		}
	}
}

// solve runs the portfolio: z3-new with the short cap, then cvc5 and z3 4.8 with the long cap.
// wantVars: names whose values are wanted on sat. important: assertion-level query (longer caps, diff).
func (pf *Portfolio) solve(body string, wantVars []string, important bool) (Tri, map[string]string, string) {
	if len(wantVars) == 0 {
		if v, ok := queryCache.Load(body); ok {
			atomic.AddInt64(&gCache.hits, 1)
			return v.(Tri), nil, "cache"
		}
		atomic.AddInt64(&gCache.misses, 1)
	}
	var note string
	fastCap := pf.cfg.capFast
	if important {
		fastCap = pf.cfg.capFastImportant
	}
	// stage 1: z3 5.x with the short cap
	if s, err := pf.get(Z3New, fastCap); err != nil {
		note += fmt.Sprintf("[z3-new: %v]", err)
	} else if r, m, err := s.query(body, wantVars, fastCap); err != nil {
		note += fmt.Sprintf("[z3-new: %v]", err)
	} else if r != Unknown {
		if len(wantVars) == 0 {
			queryCache.Store(body, r)
		}
		if important && pf.cfg.diff {
			// solver diff: ask a second solver, disagreement is recorded
			if s2, err := pf.get(CVC5, pf.cfg.capSlow); err == nil {
				r2, _, err2 := s2.query(body, nil, pf.cfg.capSlow)
				if err2 == nil && r2 != Unknown {
					atomic.AddInt64(&pf.cfg.stats.diffed, 1)
					if r2 != r {
						atomic.AddInt64(&pf.cfg.stats.disagreements, 1)
						return Unknown, nil, fmt.Sprintf("solver disagreement: z3-new=%v cvc5=%v", r, r2)
					}
				}
			}
		}
		return r, m, "z3-new" + note
	}
	// stage 2: cvc5 and z3 4.8 side by side with the long cap; the first definitive answer wins
	type ans struct {
		r    Tri
		m    map[string]string
		kind SolverKind
		err  error
	}
	ch := make(chan ans, 2)
	var started []SolverKind
	for _, k := range []SolverKind{CVC5, Z3Old} {
		s, err := pf.get(k, pf.cfg.capSlow)
		if err != nil {
			note += fmt.Sprintf("[%s: %v]", solverNames[k], err)
			continue
		}
		started = append(started, k)
		go func(k SolverKind, s *Solver) {
			r, m, err := s.query(body, wantVars, pf.cfg.capSlow)
			ch <- ans{r, m, k, err}
		}(k, s)
	}
	var winner *ans
	for i := 0; i < len(started); i++ {
		a := <-ch
		if a.err != nil {
			note += fmt.Sprintf("[%s: %v]", solverNames[a.kind], a.err)
			continue
		}
		if a.r != Unknown && winner == nil {
			w := a
			winner = &w
			// stop the other solver: it is restarted on demand
			for _, k := range started {
				if k != a.kind && pf.solvers[k] != nil {
					pf.solvers[k].kill()
				}
			}
		}
	}
	if winner != nil {
		if len(wantVars) == 0 {
			queryCache.Store(body, winner.r)
		}
		return winner.r, winner.m, solverNames[winner.kind] + note
	}
	return Unknown, nil, "all solvers unknown " + note
}
