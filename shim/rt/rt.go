// Package rt is the nondeterminism / assertion API used by the verification harnesses.
//
// Under the symbolic executor (symgo) every function here is intercepted: generators return
// symbolic values, Assert becomes a solver query. Compiled natively (this file), the same
// harness replays ONE concrete case read from the file named by $VERIF_CASE and writes what it
// observed to $VERIF_OUT, so that a solver model can be confirmed against the real build.
package rt

import (
	crand "crypto/rand"
	"encoding/base64"
	"encoding/json"
	"fmt"
	"os"
	"runtime"
	"strconv"
	"strings"
	"sync"
	"sync/atomic"
	"time"

	"github.com/google/uuid"
)

type Case struct {
	Harness string            `json:"harness"`
	Params  map[string]int    `json:"params"`
	Strs    map[string]string `json:"strs"` // base64
	Ints    map[string]int64  `json:"ints"`
	Choices map[string]int    `json:"choices"`
}

type AssertOut struct {
	Label string `json:"label"`
	OK    bool   `json:"ok"`
}

type ObsOut struct {
	Label string `json:"label"`
	V     string `json:"v"` // base64
}

type Result struct {
	Harness  string      `json:"harness"`
	Asserts  []AssertOut `json:"asserts"`
	Observes []ObsOut    `json:"observes"`
	Reached  []string    `json:"reached"`
	Panic    string      `json:"panic"`
	Skipped  bool        `json:"skipped"`  // an Assume was false
	Diverged string      `json:"diverged"` // the case file lacks a value the run asked for
}

var (
	mu     sync.Mutex
	cur    *Case
	res    *Result
	counts map[string]int
)

type skipCase struct{}

func uniq(name string) string {
	k := counts[name]
	counts[name] = k + 1
	return name + "#" + strconv.Itoa(k)
}

func diverge(msg string) {
	if res.Diverged == "" {
		res.Diverged = msg
	}
}

func Symbolic() bool { return false }

func Str(name, class string, lo, hi int) string {
	mu.Lock()
	defer mu.Unlock()
	k := uniq(name)
	v, ok := cur.Strs[k]
	if !ok {
		diverge("no string value for " + k)
		return strings.Repeat("a", lo)
	}
	b, _ := base64.StdEncoding.DecodeString(v)
	return string(b)
}

func StrRe(name, re string, hi int) string { return Str(name, "", 0, hi) }
func Dec(name string, maxDigits int) string { return Str(name, "", 1, maxDigits) }

func Int(name string, lo, hi int) int {
	mu.Lock()
	defer mu.Unlock()
	k := uniq(name)
	v, ok := cur.Ints[k]
	if !ok {
		diverge("no integer value for " + k)
		return lo
	}
	return int(v)
}

func Choice(name string, n int) int {
	mu.Lock()
	defer mu.Unlock()
	k := uniq(name)
	v, ok := cur.Choices[k]
	if !ok {
		diverge("no choice value for " + k)
		return 0
	}
	return v
}

func Bool(name string) bool { return Choice(name, 2) == 1 }

func Param(name string) int {
	v, ok := cur.Params[name]
	if !ok {
		diverge("no parameter " + name)
	}
	return v
}

func Assume(c bool) {
	if !c {
		panic(skipCase{})
	}
}

func Assert(c bool, label string) {
	mu.Lock()
	defer mu.Unlock()
	res.Asserts = append(res.Asserts, AssertOut{Label: label, OK: c})
}

func Fail(label string) { Assert(false, label) }

func Observe(label, v string) {
	mu.Lock()
	defer mu.Unlock()
	res.Observes = append(res.Observes, ObsOut{Label: label, V: base64.StdEncoding.EncodeToString([]byte(v))})
}

func ObserveInt(label string, v int) { Observe(label, strconv.Itoa(v)) }

func Reach(label string) {
	mu.Lock()
	defer mu.Unlock()
	res.Reached = append(res.Reached, label)
}

func Known(tag string, c bool) bool { return c }

func And(a ...bool) bool {
	for _, x := range a {
		if !x {
			return false
		}
	}
	return true
}

func Or(a ...bool) bool {
	for _, x := range a {
		if x {
			return true
		}
	}
	return false
}

func Not(a bool) bool        { return !a }
func Implies(a, b bool) bool { return !a || b }

// Unwind raises the loop bound of repository code for the rest of the path (symbolic run only).
func Unwind(n int)                  {}
// DistinctUUIDs: the executor stops treating draws of the random source as arbitrary (possibly colliding) values and
// hands out fixed pairwise distinct ones — an assumption of the harness that calls it (natively: real draws).
func DistinctUUIDs()                 {}
func MapOrder(symbolic bool)        {}
func Sched(budget int, explore bool) {}
func SelectChoice(on bool)          {}
func SchedPolicy(policy int)        {}
func RaceMonitor(on bool)           {}
// AllocLimit: natively the case fails if it allocates more than 32x the limit in total.
func AllocLimit(n int) { allocLimit = uint64(n) }

var allocLimit uint64
// UUIDCalls: how many UUIDs the process has drawn so far (the native twin counts reads of the uuid package's
// random source; the executor counts calls of its uuid.NewRandom model).
func UUIDCalls() int { return int(atomic.LoadInt64(&uuidReads)) }

var uuidReads int64

type countingRand struct{}

func (countingRand) Read(b []byte) (int, error) {
	atomic.AddInt64(&uuidReads, 1)
	return crand.Read(b)
}

func init() { uuid.SetRand(countingRand{}) }

func Note(s string)                 {}

// Setenv sets a variable of the process environment (the symbolic environment is empty otherwise).
func Setenv(name, value string) { os.Setenv(name, value) }

// Quiesce waits until every other goroutine is blocked (channel, select, mutex, sleep).
func Quiesce() {
	stable := 0
	for i := 0; i < 20000 && stable < 3; i++ {
		if othersBlocked() {
			stable++
		} else {
			stable = 0
		}
		time.Sleep(200 * time.Microsecond)
	}
}

func othersBlocked() bool {
	buf := make([]byte, 1<<20)
	n := runtime.Stack(buf, true)
	first := true
	for _, blk := range strings.Split(string(buf[:n]), "\n\n") {
		if first { // the caller
			first = false
			continue
		}
		head := blk
		if i := strings.IndexByte(blk, '\n'); i >= 0 {
			head = blk[:i]
		}
		if strings.Contains(blk, "testing.") && !strings.Contains(blk, "zz_verif") && !strings.Contains(blk, "sipproxy.") {
			continue // test framework goroutines
		}
		if strings.Contains(blk, "faketime.Sleep") {
			continue // parked on the harness-controlled clock (its poll loop is not progress)
		}
		if strings.Contains(head, "[running]") || strings.Contains(head, "[runnable]") {
			return false
		}
		if strings.Contains(head, "[sleep") && !strings.Contains(blk, "faketime") {
			// a real sleep (only rt.Quiesce itself and faketime's poll loop sleep for real)
			if !strings.Contains(blk, "rt.Quiesce") {
				return false
			}
		}
	}
	return true
}

// RunCase is called by the generated test: it runs the harness named in the case file.
func RunCase(reg map[string]func()) {
	file := os.Getenv("VERIF_CASE")
	out := os.Getenv("VERIF_OUT")
	if file == "" {
		return
	}
	data, err := os.ReadFile(file)
	if err != nil {
		panic(err)
	}
	c := &Case{}
	if err := json.Unmarshal(data, c); err != nil {
		panic(err)
	}
	cur = c
	res = &Result{Harness: c.Harness}
	counts = map[string]int{}
	f, ok := reg[c.Harness]
	if !ok {
		res.Diverged = "unknown harness " + c.Harness
	} else {
		var ms0 runtime.MemStats
		runtime.ReadMemStats(&ms0)
		checkAlloc := func() {
			if allocLimit > 0 {
				var ms1 runtime.MemStats
				runtime.ReadMemStats(&ms1)
				if ms1.TotalAlloc-ms0.TotalAlloc > 32*allocLimit {
					res.Asserts = append(res.Asserts, AssertOut{Label: "allocation larger than the limit (native: total allocation " + strconv.FormatUint(ms1.TotalAlloc-ms0.TotalAlloc, 10) + " bytes)", OK: false})
				}
			}
		}
		func() {
			defer func() {
				if r := recover(); r != nil {
					if _, ok := r.(skipCase); ok {
						res.Skipped = true
						return
					}
					res.Panic = fmt.Sprint(r)
					if e, ok := r.(error); ok {
						res.Panic = e.Error()
					}
				}
			}()
			f()
		}()
		checkAlloc()
	}
	mu.Lock()
	b, _ := json.Marshal(res)
	mu.Unlock()
	if out != "" {
		os.WriteFile(out, b, 0o644)
	} else {
		fmt.Println(string(b))
	}
}
