// Package faketime stands in for "time" in the rewritten copies of the repository's files.
package faketime

import realtime "time"

type Duration = realtime.Duration

const (
	Nanosecond  = realtime.Nanosecond
	Microsecond = realtime.Microsecond
	Millisecond = realtime.Millisecond
	Second      = realtime.Second
	Minute      = realtime.Minute
	Hour        = realtime.Hour
)

// Time is an instant on the harness-controlled clock (nanoseconds).
type Time struct{ ns int64 }

var clock int64 = 1_000_000_000_000

func SetClock(ns int64)   { clock = ns }
func Advance(d Duration)  { clock += int64(d) }
func Now() Time           { return Time{ns: clock} }
func Unix(sec, nsec int64) Time { return Time{ns: sec*1e9 + nsec} }
func Since(t Time) Duration { return Duration(clock - t.ns) }
func Until(t Time) Duration { return Duration(t.ns - clock) }
func Sleep(d Duration)    { sleepHook(d) }

var sleepHook = func(d Duration) { clock += int64(d) }

func (t Time) Add(d Duration) Time  { return Time{ns: t.ns + int64(d)} }
func (t Time) Sub(u Time) Duration  { return Duration(t.ns - u.ns) }
func (t Time) After(u Time) bool    { return t.ns > u.ns }
func (t Time) Before(u Time) bool   { return t.ns < u.ns }
func (t Time) Equal(u Time) bool    { return t.ns == u.ns }
func (t Time) Compare(u Time) int {
	switch {
	case t.ns < u.ns:
		return -1
	case t.ns > u.ns:
		return 1
	}
	return 0
}
func (t Time) IsZero() bool     { return t.ns == 0 }
func (t Time) Unix() int64      { return t.ns / 1e9 }
func (t Time) UnixMilli() int64 { return t.ns / 1e6 }
func (t Time) UnixNano() int64  { return t.ns }
