// Package faketime stands in for "time" in the import-rewritten copies of the repository's
// files: a harness-controlled clock. Symbolically the readings are arbitrary instants chosen by
// the harness; Sleep blocks until the harness has advanced the clock far enough.
package faketime

import (
	realtime "time"
	"sync/atomic"
)

type Duration = realtime.Duration

const (
	Nanosecond  = realtime.Nanosecond
	Microsecond = realtime.Microsecond
	Millisecond = realtime.Millisecond
	Second      = realtime.Second
	Minute      = realtime.Minute
	Hour        = realtime.Hour
)

// Time is an instant on the harness-controlled clock (nanoseconds).
type Time struct{ ns int64 }

var clock int64 = 1_000_000_000_000

func SetClock(ns int64)     { atomic.StoreInt64(&clock, ns) }
func Advance(d Duration)    { atomic.AddInt64(&clock, int64(d)) }
func Clock() int64          { return atomic.LoadInt64(&clock) }
func Now() Time             { return Time{ns: atomic.LoadInt64(&clock)} }
func Unix(sec, nsec int64) Time { return Time{ns: sec*1000000000 + nsec} }
func Since(t Time) Duration { return Duration(atomic.LoadInt64(&clock) - t.ns) }
func Until(t Time) Duration { return Duration(t.ns - atomic.LoadInt64(&clock)) }

// Sleep blocks until the clock has been advanced by at least d (symgo intercepts this call;
// natively it polls the fake clock).
func Sleep(d Duration) {
	wake := atomic.LoadInt64(&clock) + int64(d)
	for atomic.LoadInt64(&clock) < wake {
		realtime.Sleep(50 * realtime.Microsecond)
	}
}

func (t Time) Add(d Duration) Time { return Time{ns: t.ns + int64(d)} }
func (t Time) Sub(u Time) Duration { return Duration(t.ns - u.ns) }
func (t Time) After(u Time) bool   { return t.ns > u.ns }
func (t Time) Before(u Time) bool  { return t.ns < u.ns }
func (t Time) Equal(u Time) bool   { return t.ns == u.ns }
func (t Time) Compare(u Time) int {
	switch {
	case t.ns < u.ns:
		return -1
	case t.ns > u.ns:
		return 1
	}
	return 0
}
func (t Time) IsZero() bool     { return t.ns == 0 }
func (t Time) Unix() int64      { return t.ns / 1000000000 }
func (t Time) UnixMilli() int64 { return t.ns / 1000000 }
func (t Time) UnixNano() int64  { return t.ns }
func (t Time) String() string   { return "<fake instant>" }
