// Package fakenet stands in for "net" in the rewritten copies of the repository's files.
package fakenet

import (
	"errors"
	"fmt"
	realnet "net"
	"strconv"
	"strings"
)

type Conn = realnet.Conn
type Addr = realnet.Addr
type Listener = realnet.Listener
type Error = realnet.Error

// IP holds the textual form of the address (nil = no address), so that `ParseIP(s) != nil` keeps its meaning.
type IP []byte

func (ip IP) String() string { return string(ip) }

type UDPAddr struct {
	IP   IP
	Port int
	Zone string
}

func (a *UDPAddr) Network() string { return "udp" }
func (a *UDPAddr) String() string {
	if a == nil {
		return "<nil>"
	}
	return JoinHostPort(string(a.IP), strconv.Itoa(a.Port))
}

type TCPAddr struct {
	IP   IP
	Port int
	Zone string
}

func (a *TCPAddr) Network() string { return "tcp" }
func (a *TCPAddr) String() string {
	if a == nil {
		return "<nil>"
	}
	return JoinHostPort(string(a.IP), strconv.Itoa(a.Port))
}

// World records everything that leaves the proxy and scripts what comes in.
type Datagram struct {
	Local, Remote string
	Payload       []byte
}

var Sent []Datagram
var Hosts = map[string][]string{} // scripted DNS
var IsIPLiteral = func(s string) bool { return realnet.ParseIP(s) != nil }

func JoinHostPort(host, port string) string {
	if strings.IndexByte(host, ':') >= 0 || strings.IndexByte(host, '%') >= 0 {
		return "[" + host + "]:" + port
	}
	return host + ":" + port
}

func SplitHostPort(hostport string) (host, port string, err error) {
	i := strings.LastIndex(hostport, ":")
	if i < 0 {
		return "", "", errors.New("missing port in address")
	}
	host, port = hostport[:i], hostport[i+1:]
	if strings.HasPrefix(host, "[") && strings.HasSuffix(host, "]") {
		host = host[1 : len(host)-1]
	} else if strings.IndexByte(host, ':') >= 0 {
		return "", "", errors.New("too many colons in address")
	}
	return host, port, nil
}

func ParseIP(s string) IP {
	if IsIPLiteral(s) {
		return IP(s)
	}
	return nil
}

func LookupIP(host string) ([]IP, error) {
	if IsIPLiteral(host) {
		return []IP{IP(host)}, nil
	}
	if ips, ok := Hosts[host]; ok && len(ips) > 0 {
		r := make([]IP, 0, len(ips))
		for _, s := range ips {
			r = append(r, IP(s))
		}
		return r, nil
	}
	return nil, fmt.Errorf("lookup %s: no such host", host)
}

func resolve(address string) (IP, int, error) {
	host, port, err := SplitHostPort(address)
	if err != nil {
		return nil, 0, err
	}
	p, err := strconv.Atoi(port)
	if err != nil || p < 0 || p > 65535 {
		return nil, 0, fmt.Errorf("invalid port %q", port)
	}
	if host == "" {
		return nil, p, nil
	}
	ips, err := LookupIP(host)
	if err != nil {
		return nil, 0, err
	}
	return ips[0], p, nil
}

func ResolveUDPAddr(network, address string) (*UDPAddr, error) {
	ip, p, err := resolve(address)
	if err != nil {
		return nil, err
	}
	return &UDPAddr{IP: ip, Port: p}, nil
}

func ResolveTCPAddr(network, address string) (*TCPAddr, error) {
	ip, p, err := resolve(address)
	if err != nil {
		return nil, err
	}
	return &TCPAddr{IP: ip, Port: p}, nil
}

type UDPConn struct {
	local  *UDPAddr
	closed bool
	Inbox  chan Datagram
}

func ListenUDP(network string, laddr *UDPAddr) (*UDPConn, error) {
	if laddr == nil {
		laddr = &UDPAddr{}
	}
	return &UDPConn{local: laddr, Inbox: make(chan Datagram, 64)}, nil
}

func (c *UDPConn) LocalAddr() Addr { return c.local }
func (c *UDPConn) Close() error    { c.closed = true; return nil }
func (c *UDPConn) WriteToUDP(b []byte, addr *UDPAddr) (int, error) {
	if c.closed {
		return 0, errors.New("use of closed network connection")
	}
	Sent = append(Sent, Datagram{Local: c.local.String(), Remote: addr.String(), Payload: append([]byte(nil), b...)})
	return len(b), nil
}
func (c *UDPConn) ReadFromUDP(b []byte) (int, *UDPAddr, error) {
	d, ok := <-c.Inbox
	if !ok {
		return 0, nil, errors.New("use of closed network connection")
	}
	n := copy(b, d.Payload)
	ip, p, _ := resolve(d.Remote)
	return n, &UDPAddr{IP: ip, Port: p}, nil
}

// Dialer / listener hooks are scripted by the harness.
var DialHook = func(network, address string) (Conn, error) { return nil, errors.New("connection refused") }
var ListenHook = func(network, address string) (Listener, error) { return nil, errors.New("listen not scripted") }

func Dial(network, address string) (Conn, error) { return DialHook(network, address) }
func DialTCP(network string, laddr, raddr *TCPAddr) (Conn, error) {
	return DialHook(network, raddr.String())
}
func Listen(network, address string) (Listener, error) { return ListenHook(network, address) }
