// Package fakenet stands in for "net" in the import-rewritten copies of the repository's files.
// The same source is executed symbolically by symgo and compiled natively for replay, so the
// environment model is identical in both worlds. Everything that leaves the proxy is recorded;
// everything that comes in, and every fault, is scripted by the harness.
package fakenet

import (
	"errors"
	"fmt"
	realnet "net"
	"strconv"
	"strings"
	"sync"
	"time"
)

// mu guards the world's logs: natively the proxy's goroutines write them concurrently.
var mu sync.Mutex

type Conn = realnet.Conn
type Addr = realnet.Addr
type Listener = realnet.Listener
type Error = realnet.Error

// IP holds the textual form of the address (nil = no address), so that `ParseIP(s) != nil`
// keeps its meaning.
type IP []byte

func (ip IP) String() string {
	if ip == nil {
		return "<nil>"
	}
	return string(ip)
}

// Equal compares the textual forms (two spellings of one IPv6 address count as different).
func (ip IP) Equal(o IP) bool { return string(ip) == string(o) }

func (ip IP) IsLoopback() bool    { return strings.HasPrefix(string(ip), "127.") || string(ip) == "::1" }
func (ip IP) IsUnspecified() bool { return string(ip) == "0.0.0.0" || string(ip) == "::" }

// To4 returns the address itself if it is a dotted quad, nil otherwise (only nil-ness is meaningful).
func (ip IP) To4() IP {
	if isIPv4(string(ip)) {
		return ip
	}
	return nil
}

type UDPAddr struct {
	IP   IP
	Port int
	Zone string
}

func (a *UDPAddr) Network() string { return "udp" }
func (a *UDPAddr) String() string {
	if a == nil {
		return "<nil>"
	}
	return JoinHostPort(string(a.IP), strconv.Itoa(a.Port))
}

type TCPAddr struct {
	IP   IP
	Port int
	Zone string
}

func (a *TCPAddr) Network() string { return "tcp" }
func (a *TCPAddr) String() string {
	if a == nil {
		return "<nil>"
	}
	return JoinHostPort(string(a.IP), strconv.Itoa(a.Port))
}

// ---------------------------------------------------------------- the scripted world

// Datagram is one UDP packet that left the proxy (or is to be delivered to it).
type Datagram struct {
	Local, Remote string
	Payload       []byte
}

// Sent is the log of every UDP datagram written, in order.
var Sent []Datagram

// Hosts is the scripted name service (name -> addresses); LookupFail makes lookups of a name fail.
var Hosts = map[string][]string{}
var LookupFail = map[string]bool{}

// IsIPLiteral decides what ParseIP accepts. The default accepts dotted IPv4 quads and
// anything containing ':' made of hex digits, colons and dots.
var IsIPLiteral = func(s string) bool { return isIPv4(s) || isIPv6(s) }

// DialHook is called for every outbound TCP connection attempt.
var DialHook = func(network, address string) (Conn, error) { return nil, errors.New("connection refused") }

// Conns lists every TCP connection created by Dial / NewTCPConn, in order.
var Conns []*TCPConn

// Dials counts dial attempts per address.
var Dials = map[string]int{}

// UDPConns lists every UDP socket created by ListenUDP.
var UDPConns []*UDPConn

// Listeners lists every TCP listener.
var Listeners []*TCPListener

// Reset clears the world (harnesses call it first; natively state would leak between cases).
func Reset() {
	Sent = nil
	Hosts = map[string][]string{}
	LookupFail = map[string]bool{}
	Conns = nil
	Dials = map[string]int{}
	UDPConns = nil
	Listeners = nil
	DialHook = func(network, address string) (Conn, error) { return nil, errors.New("connection refused") }
}

func isIPv4(s string) bool {
	parts := strings.Split(s, ".")
	if len(parts) != 4 {
		return false
	}
	for _, p := range parts {
		if len(p) == 0 || len(p) > 3 {
			return false
		}
		n, err := strconv.Atoi(p)
		if err != nil || n > 255 || (len(p) > 1 && p[0] == '0') {
			return false
		}
		for i := 0; i < len(p); i++ {
			if p[i] < '0' || p[i] > '9' {
				return false
			}
		}
	}
	return true
}

func isIPv6(s string) bool {
	if !strings.Contains(s, ":") || len(s) < 2 {
		return false
	}
	for i := 0; i < len(s); i++ {
		c := s[i]
		if !(c >= '0' && c <= '9' || c >= 'a' && c <= 'f' || c >= 'A' && c <= 'F' || c == ':' || c == '.') {
			return false
		}
	}
	return true
}

func JoinHostPort(host, port string) string {
	if strings.IndexByte(host, ':') >= 0 || strings.IndexByte(host, '%') >= 0 {
		return "[" + host + "]:" + port
	}
	return host + ":" + port
}

func SplitHostPort(hostport string) (host, port string, err error) {
	i := strings.LastIndex(hostport, ":")
	if i < 0 {
		return "", "", errors.New("missing port in address")
	}
	host, port = hostport[:i], hostport[i+1:]
	if strings.HasPrefix(host, "[") {
		if !strings.HasSuffix(host, "]") {
			return "", "", errors.New("missing ']' in address")
		}
		host = host[1 : len(host)-1]
	} else if strings.IndexByte(host, ':') >= 0 {
		return "", "", errors.New("too many colons in address")
	}
	return host, port, nil
}

func ParseIP(s string) IP {
	if IsIPLiteral(s) {
		return IP(s)
	}
	return nil
}

func LookupIP(host string) ([]IP, error) {
	if IsIPLiteral(host) {
		return []IP{IP(host)}, nil
	}
	if LookupFail[host] {
		return nil, fmt.Errorf("lookup %s: server misbehaving", host)
	}
	if ips, ok := Hosts[host]; ok && len(ips) > 0 {
		r := make([]IP, 0, len(ips))
		for _, s := range ips {
			r = append(r, IP(s))
		}
		return r, nil
	}
	return nil, fmt.Errorf("lookup %s: no such host", host)
}

func resolve(address string) (IP, int, error) {
	host, port, err := SplitHostPort(address)
	if err != nil {
		return nil, 0, err
	}
	p, err := strconv.Atoi(port)
	if err != nil || p < 0 || p > 65535 {
		return nil, 0, fmt.Errorf("invalid port %q", port)
	}
	if host == "" {
		return nil, p, nil
	}
	ips, err := LookupIP(host)
	if err != nil {
		return nil, 0, err
	}
	return ips[0], p, nil
}

func ResolveUDPAddr(network, address string) (*UDPAddr, error) {
	ip, p, err := resolve(address)
	if err != nil {
		return nil, err
	}
	return &UDPAddr{IP: ip, Port: p}, nil
}

func ResolveTCPAddr(network, address string) (*TCPAddr, error) {
	ip, p, err := resolve(address)
	if err != nil {
		return nil, err
	}
	return &TCPAddr{IP: ip, Port: p}, nil
}

// ---------------------------------------------------------------- UDP

type UDPConn struct {
	local     *UDPAddr
	closed    bool
	Inbox     chan Datagram
	WriteFail bool
}

func ListenUDP(network string, laddr *UDPAddr) (*UDPConn, error) {
	if laddr == nil {
		laddr = &UDPAddr{}
	}
	c := &UDPConn{local: laddr, Inbox: make(chan Datagram, 64)}
	mu.Lock()
	UDPConns = append(UDPConns, c)
	mu.Unlock()
	return c, nil
}

func (c *UDPConn) LocalAddr() Addr { return c.local }
func (c *UDPConn) Closed() bool    { return c.closed }
func (c *UDPConn) Close() error {
	if c.closed {
		return errors.New("use of closed network connection")
	}
	c.closed = true
	return nil
}
func (c *UDPConn) WriteToUDP(b []byte, addr *UDPAddr) (int, error) {
	if c.closed {
		return 0, errors.New("use of closed network connection")
	}
	if c.WriteFail {
		return 0, errors.New("network is unreachable")
	}
	mu.Lock()
	Sent = append(Sent, Datagram{Local: c.local.String(), Remote: addr.String(), Payload: append([]byte(nil), b...)})
	mu.Unlock()
	return len(b), nil
}
func (c *UDPConn) WriteTo(b []byte, addr Addr) (int, error) {
	if u, ok := addr.(*UDPAddr); ok {
		return c.WriteToUDP(b, u)
	}
	return 0, errors.New("unsupported address type")
}
func (c *UDPConn) ReadFromUDP(b []byte) (int, *UDPAddr, error) {
	d, ok := <-c.Inbox
	if !ok {
		return 0, nil, errors.New("use of closed network connection")
	}
	n := copy(b, d.Payload)
	ip, p, _ := resolve(d.Remote)
	return n, &UDPAddr{IP: ip, Port: p}, nil
}
func (c *UDPConn) SetDeadline(t time.Time) error      { return nil }
func (c *UDPConn) SetReadDeadline(t time.Time) error  { return nil }
func (c *UDPConn) SetWriteDeadline(t time.Time) error { return nil }

// Deliver hands a datagram to the socket as if it had arrived from `from`.
func (c *UDPConn) Deliver(from string, payload []byte) {
	c.Inbox <- Datagram{Local: c.local.String(), Remote: from, Payload: payload}
}

// ---------------------------------------------------------------- TCP

// TCPConn is a scripted stream connection. Bytes written by the proxy are logged per Write;
// bytes for the proxy to read are queued in segments; writes can be made to fail.
type TCPConn struct {
	local, remote *TCPAddr
	Written       [][]byte
	WriteCalls    int // every Write call, failed ones included
	FailWrites    int // the next FailWrites writes fail
	WriteFault    func(c *TCPConn, b []byte) bool
	FailAccept    int      // a failing write first accepts this many bytes (always fewer than offered) and reports them
	PartialBytes  int      // how many bytes failing writes accepted in total
	closed        bool
	Closes        int
	inbox         chan []byte
	pending       []byte
	Name          string
}

// NewTCPConn creates a connection (inbound when handed to a listener, outbound when returned by DialHook).
func NewTCPConn(local, remote string) *TCPConn {
	lip, lp, _ := resolve(local)
	rip, rp, _ := resolve(remote)
	c := &TCPConn{local: &TCPAddr{IP: lip, Port: lp}, remote: &TCPAddr{IP: rip, Port: rp}, inbox: make(chan []byte, 64)}
	mu.Lock()
	Conns = append(Conns, c)
	mu.Unlock()
	return c
}

func (c *TCPConn) LocalAddr() Addr  { return c.local }
func (c *TCPConn) RemoteAddr() Addr { return c.remote }
func (c *TCPConn) IsClosed() bool   { return c.closed }
func (c *TCPConn) Close() error {
	c.Closes++
	if c.closed {
		return errors.New("use of closed network connection")
	}
	c.closed = true
	close(c.inbox)
	return nil
}
func (c *TCPConn) Write(b []byte) (int, error) {
	mu.Lock()
	c.WriteCalls++
	mu.Unlock()
	if c.closed {
		return 0, errors.New("use of closed network connection")
	}
	if c.FailWrites > 0 {
		c.FailWrites--
		return c.acceptPart(b), errors.New("broken pipe")
	}
	if c.WriteFault != nil && c.WriteFault(c, b) {
		return c.acceptPart(b), errors.New("connection reset by peer")
	}
	mu.Lock()
	c.Written = append(c.Written, append([]byte(nil), b...))
	mu.Unlock()
	return len(b), nil
}

// acceptPart: a write that fails may have handed a prefix of the data to the peer before.
func (c *TCPConn) acceptPart(b []byte) int {
	k := c.FailAccept
	if k >= len(b) {
		k = len(b) - 1
	}
	if k <= 0 {
		return 0
	}
	mu.Lock()
	c.PartialBytes += k
	mu.Unlock()
	return k
}

// Feed queues one segment for the proxy to read.
func (c *TCPConn) Feed(segment []byte) {
	if c.closed {
		return // the proxy has closed the connection: the peer's bytes go nowhere
	}
	c.inbox <- segment
}

// EOF closes the read side (peer closed the connection).
func (c *TCPConn) EOF() {
	if !c.closed {
		c.closed = true
		close(c.inbox)
	}
}

var errEOF = realEOF()

func (c *TCPConn) Read(b []byte) (int, error) {
	if len(c.pending) == 0 {
		seg, ok := <-c.inbox
		if !ok {
			return 0, errEOF
		}
		c.pending = seg
	}
	n := copy(b, c.pending)
	c.pending = c.pending[n:]
	return n, nil
}
func (c *TCPConn) SetDeadline(t time.Time) error      { return nil }
func (c *TCPConn) SetReadDeadline(t time.Time) error  { return nil }
func (c *TCPConn) SetWriteDeadline(t time.Time) error { return nil }

func Dial(network, address string) (Conn, error) {
	mu.Lock()
	Dials[address]++
	mu.Unlock()
	return DialHook(network, address)
}
// DialTCP has the signature of the real one: a *TCPConn, which is a nil POINTER when the dial
// fails (stored in a Conn interface it is not a nil interface).
func DialTCP(network string, laddr, raddr *TCPAddr) (*TCPConn, error) {
	if raddr == nil {
		return nil, errors.New("dial tcp: missing address")
	}
	mu.Lock()
	Dials[raddr.String()]++
	mu.Unlock()
	c, err := DialHook(network, raddr.String())
	if err != nil {
		return nil, err
	}
	tc, _ := c.(*TCPConn)
	return tc, nil
}
func DialTimeout(network, address string, d time.Duration) (Conn, error) {
	return Dial(network, address)
}

type TCPListener struct {
	addr   *TCPAddr
	queue  chan Conn
	closed bool
}

func Listen(network, address string) (Listener, error) {
	ip, p, err := resolve(address)
	if err != nil {
		return nil, err
	}
	l := &TCPListener{addr: &TCPAddr{IP: ip, Port: p}, queue: make(chan Conn, 16)}
	mu.Lock()
	Listeners = append(Listeners, l)
	mu.Unlock()
	return l, nil
}
func (l *TCPListener) Accept() (Conn, error) {
	c, ok := <-l.queue
	if !ok {
		return nil, errors.New("use of closed network connection")
	}
	return c, nil
}
func (l *TCPListener) Close() error {
	if !l.closed {
		l.closed = true
		close(l.queue)
	}
	return nil
}
func (l *TCPListener) Addr() Addr { return l.addr }

// Connect hands an inbound connection to the listener.
func (l *TCPListener) Connect(c Conn) { l.queue <- c }
