package fakenet

import "io"

func realEOF() error { return io.EOF }
