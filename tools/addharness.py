#!/usr/bin/env python3
"""tools/addharness.py <prop> <func> '<quick json>' '<thorough json>' '<about>' ['<bound text>'] — appends a harness
configuration (and optionally a line of bounds text) to props.json."""
import json, sys
prop, func, q, t, about = sys.argv[1:6]
p = json.load(open('/verif/props.json'))
h = {"func": func, "quick": json.loads(q), "thorough": json.loads(t), "about": about}
p[prop]["harnesses"].append(h)
if len(sys.argv) > 6:
    p[prop]["bounds"].append(sys.argv[6])
json.dump(p, open('/verif/props.json', 'w'), indent=1, ensure_ascii=False)
