#!/usr/bin/env python3
"""tools/seed_prompt.py <property-id> <worktree> — prints the brief given to an independent sub-agent that is asked
for a seeded change. The brief contains only the property text, the worktree path and the one-line mechanisms of
changes already collected for this property (so that a new one differs); nothing about /verif's checks."""
import json, sys, glob, os
pid, wt = sys.argv[1], sys.argv[2]
prop = next(json.loads(l) for l in open('/verif/properties.jsonl') if json.loads(l)['id'] == pid)
earlier = []
for m in sorted(glob.glob('/verif/seeded/%s*/meta.json' % pid)):
    try:
        earlier.append(json.load(open(m))['change'])
    except Exception:
        pass
print(f"""You are helping to evaluate a verification effort for a small Go SIP proxy (ochinchina/sipproxy, package main).
Your scratch git worktree of the repository is {wt} — work ONLY there (never in /repo, never in /verif, do not read /verif).
Every shell call: export GOFLAGS=-mod=mod GOPROXY=off GOSUMDB=off GOTOOLCHAIN=local   (no network; nothing can be fetched).

The property (a semantic guarantee users of the proxy rely on):

  {prop['id']} — {prop['title']}
  {prop['statement']}
  Domain: {prop['quantifier']['text']}

Task: write ONE realistic change to the proxy's source (the kind of change a maintainer could plausibly make in a refactoring,
an optimisation, a "clean-up" or a small feature) that BREAKS this property, while
  * the package still compiles (go build ./...),
  * all existing tests still pass unedited (go test -vet=off -count=1 ./...), and
  * the breakage needs something specific to manifest: a particular interleaving, a fault at a particular point, a multi-step
    sequence of operations, an unusual (but in-domain) input, or two cooperating sites that each look fine alone. It must NOT be
    something ordinary use would expose at once (the plain happy path must still work).
Prefer a clause of the property, a code path, or an input dimension that the following earlier changes did NOT touch
(these were already collected; yours must differ in mechanism):
""" + "\n".join("  - " + e for e in earlier) + f"""

Deliver, in the worktree:
  1. the source change itself (uncommitted edits to existing .go files; do not add build tags; do not edit existing tests),
  2. seed_demo_test.go (package main) containing exactly one test function TestSeedDemo that FAILS with your change and PASSES
     without it (check both WITHOUT git stash — the stash is shared between worktrees and other agents work in parallel: `git diff -- "*.go" > /tmp/<your-worktree-name>.patch; git checkout -- <changed files>; run; git apply /tmp/<your-worktree-name>.patch`). It should drive the real code as
     directly as practical (in-process; no real network beyond loopback, no sleeps longer than 2 s) and assert the property's
     clause, not an implementation detail,
  3. SEED_notes.md: 5-10 lines — what was changed, which clause of the property breaks, what is needed for it to manifest.
Remove any built binary (rm -f sipproxy) before finishing. Do not commit. Keep the change small (typically < 30 lines).
Final answer: the id-like short name of your change (kebab-case), the files changed, and the three confirmations
(build ok / suite ok / demo fails-with passes-without) with the commands you ran.""")
