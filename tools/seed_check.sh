#!/bin/bash
# tools/seed_check.sh <seed-id> <property> [more properties] — applies /verif/seeded/<id>/patch.diff to a scratch
# copy of /repo and runs the quick checks of the given properties against it (VERIF_REPO).
ID=$1; shift
S=/tmp/seedrun-$ID
rm -rf $S
if [ -f /verif/seeded/$ID/base ]; then
  # the change was written against an earlier commit of /repo (a later fix: commit rewrote the lines it touches)
  mkdir -p $S; git -C /repo archive $(cat /verif/seeded/$ID/base) | tar -x -C $S
else
  rsync -a --exclude .git --exclude sipproxy /repo/ $S/
fi
(cd $S && patch -p1 -s < /verif/seeded/$ID/patch.diff) || { echo "patch does not apply"; exit 2; }
for P in "$@"; do
  VERIF_REPO=$S VERIF_EVIDENCE_DIR=/tmp/seed-evidence /verif/check $P > /tmp/seedrun-$ID-$P.out 2>/dev/null; RC=$?
  echo "seed $ID check $P: rc=$RC $(grep -a -m1 '^VIOLATION' /tmp/seedrun-$ID-$P.out | cut -c1-60) $(grep -a -m1 'harness=' /tmp/seedrun-$ID-$P.out | cut -c1-220)"
  grep -a -m2 '^INCONCLUSIVE' /tmp/seedrun-$ID-$P.out | cut -c1-300
done
rm -rf $S
