#!/usr/bin/env python3
"""Regenerates /verif/MANIFEST.json from tools/claims.json (claimed checks) and properties.jsonl."""
import json, os
D = os.path.dirname(os.path.dirname(os.path.abspath(__file__)))
props = [json.loads(l)['id'] for l in open(os.path.join(D, 'properties.jsonl'))]
claims = json.load(open(os.path.join(D, 'tools', 'claims.json')))
TECH = "bounded symbolic execution of the repository's go/ssa (own executor symgo) + SMT (z3 5.1 / cvc5 / z3 4.8 strings+LIA); counterexamples replayed natively"
checks = []
for pid in props:
    c = claims.get(pid)
    if not c or c.get('not_applicable'):
        continue
    checks.append({
        "property_id": pid,
        "quick_cmd": f"./check {pid} --tier quick",
        "thorough_cmd": f"./check {pid} --tier thorough",
        "evidence_file": f"/verif/evidence/{pid}.json",
        "replay_cmd_template": "./check replay {path}",
        "engine": "symgo",
        "level_claimed": {"category": "model_checking", "text": c['text'], "design_ref": c.get('design_ref', 'DESIGN.md section 4 ' + pid)},
        "level_note": c['note'],
        "technique": c.get('technique', TECH),
    })
na = []
for pid in props:
    c = claims.get(pid)
    if not c:
        na.append({"property_id": pid, "reason": "check not built yet (engine under construction); see DESIGN.md section 4"})
    elif c.get('not_applicable'):
        na.append({"property_id": pid, "reason": c['not_applicable']})
m = {
    "version": 1,
    "setup_cmd": "./setup.sh",
    "hooks": {"guard": "verif", "enable": "no source hooks: harnesses, shims (fakenet/faketime/rt) and import-rewritten copies are injected through a build overlay at check time; -tags verif is passed but unused by the repository",
              "baseline_off_cmd": "cd /repo && go test -vet=off -count=1 -timeout 25m ./...", "source_commits": [], "add_only": True},
    "engines": [{"name": "symgo", "path": "engine", "serves_properties": [c['property_id'] for c in checks],
                 "kind_free_text": "symbolic executor over golang.org/x/tools/go/ssa of /repo's current tree; normal-form strings; SMT portfolio; native replay through go test -overlay"}],
    "checks": checks,
    "notes": "Every check regenerates its encoding from /repo's working tree on every run. Exit 0 holds / 1 VIOLATION / 2 INCONCLUSIVE (no VIOLATION line). Known findings: KNOWN_FINDINGS.txt.",
    "not_applicable": na,
}
json.dump(m, open(os.path.join(D, 'MANIFEST.json'), 'w'), indent=1)
print("claimed:", [c['property_id'] for c in checks], "not claimed:", len(na))
