#!/usr/bin/env python3
"""Self-test: applies hand-written mutants (DESIGN section 8) to a scratch copy of /repo and runs the
quick check of the property each one is meant to break. Usage: tools/selftest.py [PROP ...]"""
import os, subprocess, sys, shutil, json, time

V = os.path.dirname(os.path.dirname(os.path.abspath(__file__)))
M = [
 ("C01","encodeHeader also skips Content-Type","message.go",'if m.isSameHeader(header.name, "Content-Length") {','if m.isSameHeader(header.name, "Content-Length") || m.isSameHeader(header.name, "Subject") {'),
 ("C01","Write emits len(body)+1","message.go",'"Content-Length: %d\\r\\n\\r\\n", len(m.body))','"Content-Length: %d\\r\\n\\r\\n", len(m.body)+1)'),
 ("C02","response hop prefers sent-by over received","proxy.go",'	host, err = viaParam.GetReceived()\n	if err == nil {','	host, err = viaParam.GetReceived()\n	if err == nil && false {'),
 ("C02","default Via port 5061","via.go",'	return 5060\n}\n\n// GetSentBy','	return 5061\n}\n\n// GetSentBy'),
 ("C03","config route consulted before Route","proxy.go",'	host, port, transport, err = p.getNextRequestHopByRoute(msg)\n	if err == nil {\n		return host, port, transport, err\n	}\n	return p.getNextRequestHopByConfig(msg)','	host, port, transport, err = p.getNextRequestHopByConfig(msg)\n	if err == nil {\n		return host, port, transport, err\n	}\n	return p.getNextRequestHopByRoute(msg)'),
 ("C03","matchSIPURI ignores user","proxy.go",'if hostName == name[pos+1:] && user == name[0:pos] {','if hostName == name[pos+1:] {'),
 ("C04","sendToBackend ignores dialog pin","proxy.go",'		backend, transport, err := p.findBackendByDialog(msg)\n		if err != nil {','		backend, transport, err := p.findBackendByDialog(msg)\n		if err != nil || true {'),
 ("C05","RemoveBackend keeps the removed element in the list","backend.go",'backends = append(backends, rb.backends[index+1:]...)','backends = append(backends, rb.backends[index:]...)'),
 ("C05","map not updated on remove","backend.go",'		delete(rb.backendMap, address)\n','		_ = address\n'),
 ("C06","Via appended below the first","message.go",'	headers = append(headers, m.headers[0:pos]...)\n	headers = append(headers, &Header{name: "Via", value: via})','	if pos < len(m.headers) {\n		pos++\n	}\n	headers = append(headers, m.headers[0:pos]...)\n	headers = append(headers, &Header{name: "Via", value: via})'),
 ("C06","branch without cookie","util.go",'return "z9hG4bK" + tmp[len(tmp)-1], nil','return "z9hG4b" + tmp[len(tmp)-1], nil'),
 ("C06","record-route policy inverted","proxy.go",'err != nil && !p.mustRecordRoute {','err != nil && p.mustRecordRoute {'),
 ("C07","rport stamped unconditionally","message.go",'	if viaParam.HasParam("rport") {\n		viaParam.SetParam','	if viaParam.HasParam("rport") || true {\n		viaParam.SetParam'),
 ("C07","ReceivedSupport test negated","proxy.go",'if msg.IsRequest() && rawMessage.ReceivedSupport {','if msg.IsRequest() && !rawMessage.ReceivedSupport {'),
 ("C08","sentBy length check removed","via.go",'	if len(sentBy) > 2 {\n		return nil, errors.New("malformatted sent-by")\n	}','	if len(sentBy) > 3 {\n		return nil, errors.New("malformatted sent-by")\n	}\n	_ = sentBy[len(sentBy)-1][0:0]\n	if len(sentBy) == 3 {\n		sentBy = sentBy[3:]\n	}'),
 ("C08","negative Content-Length accepted","message.go",'	if contentLength < 0 {','	if contentLength < -1 {'),
 ("C09","pool lock removed in Alloc","byte_array_pool.go",'func (bp *ByteArrayPool) Alloc() []byte {\n	bp.Lock()\n	defer bp.Unlock()\n','func (bp *ByteArrayPool) Alloc() []byte {\n'),
 ("C09","self-learn route lock removed in GetRoute","self_learn_route.go",'func (sl *SelfLearnRoute) GetRoute(ip string) (ServerTransport, bool) {\n	sl.Lock()\n	defer sl.Unlock()\n','func (sl *SelfLearnRoute) GetRoute(ip string) (ServerTransport, bool) {\n'),
 ("C10","datagram length off by one","transport.go",'sized_byte_array.b[:sized_byte_array.n]','sized_byte_array.b[:sized_byte_array.n+1]'),
 ("C10","buffer freed before decode","transport.go",'		msg, err := ParseMessage(reader)\n		u.msgBufPool.Free(sized_byte_array.b)','		u.msgBufPool.Free(sized_byte_array.b)\n		msg, err := ParseMessage(reader)'),
 ("C11","skipWhiteSpace removed","message.go",'	firstLine := true\n	skipWhiteSpace(reader)','	firstLine := true'),
 ("C11","body read one byte short","message.go",'io.LimitReader(reader, int64(contentLength))','io.LimitReader(reader, int64(contentLength)-1)'),
 ("C12","full address drops transaction id","transport.go",'if protocol == "tcp" && transId != "" {','if protocol == "tcp" && transId != "" && false {'),
 ("C12","transport removed on every response","proxy.go",'		if msg.IsFinalResponse() {\n			p.clientTransMgr.RemoveTransport','		if msg.IsResponse() {\n			p.clientTransMgr.RemoveTransport'),
 ("C13","own route without port comparison","proxy.go",'if sipUri.GetPort() == myPort && p.isSameAddress(sipUri.Host, myAddr) {','if myPort >= 0 && p.isSameAddress(sipUri.Host, myAddr) {'),
 ("C13","keepNextHopRoute negated","proxy.go",'	if !P.keepNextHopRoute {\n		msg.PopRoute()','	if P.keepNextHopRoute {\n		msg.PopRoute()'),
 ("C14","SIPURI omits password","sip_uri.go",'		if len(s.Password) > 0 {','		if len(s.Password) > 1 {'),
 ("C14","To.String drops last param when three","to.go",'	for _, kv := range t.params {\n		fmt.Fprintf(buf, ";%s", kv)','	for i, kv := range t.params {\n		if i == 2 {\n			break\n		}\n		fmt.Fprintf(buf, ";%s", kv)'),
 ("C15","expire.After -> Before","backend.go",'if value.expire.After(time.Now()) {','if value.expire.Before(time.Now()) {'),
 ("C15","max -> min of timeout and Expires","backend.go",'if float64(expireSeconds) > timeout.Seconds() {','if expireSeconds > 0 && float64(expireSeconds) < timeout.Seconds() {'),
 ("C15","RemoveDialog no-op","backend.go",'func (dbb *DialogBasedBackend) RemoveDialog(dialog string) {\n	delete(dbb.backends, dialog)','func (dbb *DialogBasedBackend) RemoveDialog(dialog string) {\n	_ = dialog'),
 ("C16","dialog address with parameters","message.go",'return sip_uri.ToString(false, false), nil','return sip_uri.ToString(true, false), nil'),
 ("C16","order by tag only","message.go",'if from_addr_s < to_addr_s || (from_addr_s == to_addr_s && from_tag < to_tag) {','if from_tag < to_tag {'),
 ("C16","port dropped from dialog address","sip_uri.go",'	if s.port != 0 {\n		m, _ := fmt.Fprintf(writer, "%s:%d", s.Host, s.port)','	if s.port != 0 && withParams {\n		m, _ := fmt.Fprintf(writer, "%s:%d", s.Host, s.port)'),
 ("C17","isSameHeader case-sensitive on compact form","message.go",'return ok && strings.EqualFold(name_1, compact)','return ok && name_1 == compact'),
 ("C17","compact table without v","message.go",'	compactHdrNames.AddCompact("Via", "v")\n','	compactHdrNames.AddCompact("Via", "w")\n'),
 ("C18","default before wildcard scan","preconfig_route.go",'	// scan the wildcard patterns','	if item, ok := pcr.items["default"]; ok {\n		return item.protocol, item.host, item.port, nil\n	}\n	// scan the wildcard patterns'),
 ("C18","dot not escaped","preconfig_route.go",'s = strings.Replace(s, ".", "\\\\.", -1)','s = strings.Replace(s, ",", "\\\\.", -1)'),
 ("C19","failed >= 3","resolver.go",'if entry.failed > 3 && len(entry.addrs) > 0 {','if entry.failed >= 3 && len(entry.addrs) > 0 {'),
 ("C19","failed counter not reset on success","resolver.go",'			removedAddrs := strArraySub(entry.addrs, addrs)\n			entry.failed = 0','			removedAddrs := strArraySub(entry.addrs, addrs)'),
 ("C19","strArraySub arguments swapped for removed","resolver.go",'removedAddrs := strArraySub(entry.addrs, addrs)','removedAddrs := strArraySub(addrs, entry.addrs)'),
 ("C20","one attempt only","transport.go",'	for i := 0; i < 2; i++ {\n		if t.conn == nil && t.reconnectable {','	for i := 0; i < 1; i++ {\n		if t.conn == nil && t.reconnectable {'),
 ("C20","stale conn kept after failed write","transport.go",'		t.conn.Close()\n		t.conn = nil\n	}\n	zap.L().Error("Fail to send message to TCP server"','		t.conn.Close()\n	}\n	zap.L().Error("Fail to send message to TCP server"'),
 ("C20","primary not forgotten","transport.go",'		fct.primary = nil\n	}\n	if fct.secondary != nil {','	}\n	if fct.secondary != nil {'),
 ("C20","success after failed backend write","backend.go",'	return fmt.Errorf("fail to send message to backend %s", t.backendAddr)','	return nil'),
]

def main():
    want = set(sys.argv[1:])
    scratch = "/tmp/selftest-repo"
    env = dict(os.environ, GOFLAGS="-mod=mod", GOPROXY="off", GOSUMDB="off", GOTOOLCHAIN="local")
    results = []
    for prop, desc, f, old, new in M:
        if want and prop not in want:
            continue
        shutil.rmtree(scratch, ignore_errors=True)
        subprocess.run(["rsync", "-a", "--exclude", ".git", "--exclude", "sipproxy", "/repo/", scratch + "/"], check=True)
        path = os.path.join(scratch, f)
        src = open(path).read()
        if old not in src:
            results.append((prop, desc, "MUTANT-STALE", ""))
            print(prop, desc, "-> pattern not found (mutant stale)", flush=True)
            continue
        open(path, "w").write(src.replace(old, new, 1))
        b = subprocess.run(["go", "build", "./..."], cwd=scratch, env=env, capture_output=True, text=True)
        if b.returncode != 0:
            results.append((prop, desc, "NO-BUILD", b.stderr[:200]))
            print(prop, desc, "-> does not build:", b.stderr[:200], flush=True)
            continue
        t0 = time.time()
        r = subprocess.run([os.path.join(V, "check"), prop], cwd=V, env=dict(env, VERIF_REPO=scratch, VERIF_EVIDENCE_DIR="/tmp/selftest-evidence"), capture_output=True, text=True)
        viol = [l for l in r.stdout.splitlines() if l.startswith("VIOLATION")]
        detail = [l for l in r.stdout.splitlines() if l.strip().startswith("harness=")]
        verdict = {0: "MISSED", 1: "CAUGHT", 2: "INCONCLUSIVE"}.get(r.returncode, "rc=%d" % r.returncode)
        results.append((prop, desc, verdict, (detail[0].strip() if detail else "")[:160]))
        print("%s %-50s -> %s (%.0fs) %s" % (prop, desc, verdict, time.time() - t0, (detail[0].strip() if detail else "")[:140]), flush=True)
    shutil.rmtree(scratch, ignore_errors=True)
    json.dump(results, open(os.path.join(V, "tools", "selftest_results.json"), "w"), indent=1)
    print("caught %d / %d" % (sum(1 for r in results if r[2] == "CAUGHT"), len(results)))

main()
