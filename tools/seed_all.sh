#!/bin/bash
# tools/seed_all.sh [seed-id-prefix …] — applies seeded changes under /verif/seeded (all, or those whose id starts
# with one of the prefixes) to a scratch copy of /repo, runs the quick check of the property each was written against
# and merges one line per change into seeded/RESULTS.txt (exit code of the check, violated assertion).
# A change counts as caught iff the check exits 1 with a VIOLATION line.
cd "$(dirname "$0")/.."
OUT=seeded/RESULTS.txt; TMP=$(mktemp)
PREFIXES=${@:-""}
for PFX in $PREFIXES ""; do
  [ -z "$PFX" ] && [ -n "$*" ] && continue
  for D in seeded/${PFX}*/; do
    ID=$(basename $D); [ -f $D/meta.json ] || continue
    P=$(python3 -c "import json;print(json.load(open('$D/meta.json'))['property'])")
    S=$(date +%s)
    LINE=$(timeout 1200 tools/seed_check.sh $ID $P 2>&1 | head -1 | cut -c1-260)
    echo "$LINE ($(( $(date +%s) - S ))s)" | tee -a $TMP
  done
done
python3 - "$OUT" "$TMP" <<'PY'
import sys,re,datetime
out,tmp=sys.argv[1],sys.argv[2]
lines={}
try:
    for l in open(out):
        m=re.match(r'seed (\S+) check',l)
        if m: lines[m.group(1)]=l.rstrip('\n')
except FileNotFoundError: pass
for l in open(tmp):
    m=re.match(r'seed (\S+) check',l)
    if m: lines[m.group(1)]=l.rstrip('\n')
with open(out,'w') as f:
    f.write("# seeded change, check of its own property, exit code (1 = caught), first violated assertion — last update %s\n"%datetime.date.today())
    for k in sorted(lines): f.write(lines[k]+"\n")
print("caught: %d of %d"%(sum('rc=1 VIOLATION' in v for v in lines.values()),len(lines)))
PY
rm -f $TMP
