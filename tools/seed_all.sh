#!/bin/bash
# tools/seed_all.sh [seed-id-prefix] — applies every seeded change under /verif/seeded to a scratch copy of /repo,
# runs the quick check of the property it was written against and writes one line per change to seeded/RESULTS.txt
# (exit code of the check, violated assertion). A change counts as caught iff the check exits 1 with a VIOLATION line.
cd "$(dirname "$0")/.."
OUT=seeded/RESULTS.txt; TMP=$(mktemp)
for D in seeded/${1:-}*/; do
  ID=$(basename $D); [ -f $D/meta.json ] || continue
  P=$(python3 -c "import json;print(json.load(open('$D/meta.json'))['property'])")
  S=$(date +%s)
  LINE=$(timeout 1200 tools/seed_check.sh $ID $P 2>&1 | head -1 | cut -c1-260)
  echo "$LINE ($(( $(date +%s) - S ))s)" | tee -a $TMP
done
if [ -z "${1:-}" ]; then { echo "# seeded change, check of its own property, exit code (1 = caught), first violated assertion — $(date -u +%F)"; cat $TMP; } > $OUT; fi
echo "caught: $(grep -c 'rc=1 VIOLATION' $TMP) of $(wc -l < $TMP)"; rm -f $TMP
