#!/bin/bash
# tools/seed_confirm.sh <worktree> <seed-id> <property> — re-confirms a seeded change produced by a sub-agent:
# build, existing suite (without the demo), demo fails with the change and passes without it.
# On success copies patch.diff + seed_demo_test.go + notes into /verif/seeded/<seed-id>/.
set -u
WT=$1; ID=$2; PROP=$3
export GOFLAGS=-mod=mod GOPROXY=off GOSUMDB=off GOTOOLCHAIN=local
cd "$WT" || exit 2
rm -f sipproxy
FILES=$(git diff --name-only | grep '\.go$' | tr '\n' ' ')
[ -z "$FILES" ] && { echo "no source change in $WT"; exit 2; }
git diff -- $FILES > /tmp/seed_$ID.diff
echo "changed: $FILES"
go build ./... || { echo "BUILD FAILS"; exit 1; }
rm -f sipproxy
go test -vet=off -count=1 -skip '^TestSeedDemo$' ./... > /tmp/seed_$ID.suite 2>&1; S=$?
echo "suite with change (demo skipped): rc=$S $(tail -1 /tmp/seed_$ID.suite)"
go test -vet=off -count=1 -run '^TestSeedDemo$' . > /tmp/seed_$ID.with 2>&1; W=$?
echo "demo with change: rc=$W"
git checkout -q -- $FILES   # no git stash: the stash is shared between worktrees
go test -vet=off -count=1 -run '^TestSeedDemo$' . > /tmp/seed_$ID.without 2>&1; O=$?
echo "demo without change: rc=$O"
git apply /tmp/seed_$ID.diff
if [ $S -eq 0 ] && [ $W -ne 0 ] && [ $O -eq 0 ]; then
  mkdir -p /verif/seeded/$ID
  cp /tmp/seed_$ID.diff /verif/seeded/$ID/patch.diff
  cp seed_demo_test.go /verif/seeded/$ID/seed_demo_test.go
  for n in SEED_notes.md notes.md; do [ -f $n ] && cp $n /verif/seeded/$ID/notes.md; done
  echo "CONFIRMED -> /verif/seeded/$ID"
else
  echo "NOT CONFIRMED"; exit 1
fi
