#!/bin/bash
# tools/runall.sh [quick|thorough] [ids…] — runs the registered checks one after the other against /repo and
# prints one line per property (result, paths, wall time). Quick runs write evidence/ as usual; thorough runs started
# from here write evidence-thorough/ so that the committed quick evidence stays.
TIER=${1:-quick}; shift
IDS=${@:-C01 C02 C03 C04 C05 C06 C07 C08 C09 C10 C11 C12 C13 C14 C15 C16 C17 C18 C19 C20}
cd "$(dirname "$0")/.."
for P in $IDS; do
  S=$(date +%s)
  if [ "$TIER" = thorough ]; then T=4200; else T=900; fi
  if [ "$TIER" = thorough ]; then export VERIF_EVIDENCE_DIR=$PWD/evidence-thorough; fi   # keep the quick evidence in evidence/
  timeout $T ./check $P --tier $TIER > /tmp/runall-$P.out 2>&1; RC=$?
  echo "$P rc=$RC $(( $(date +%s) - S ))s $(grep -a -m1 '^RESULT' /tmp/runall-$P.out | cut -c1-160)"
  grep -a -m3 '^INCONCLUSIVE\|^VIOLATION\|^KNOWN-FINDING' /tmp/runall-$P.out | cut -c1-240
done
