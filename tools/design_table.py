#!/usr/bin/env python3
"""tools/design_table.py — rewrites the numeric columns (harnesses, paths, natively validated, wall) of the table in
DESIGN.md §0.4 from the evidence files; the bounds column is kept."""
import json, re
s = open('/verif/DESIGN.md').read()
def row(pid):
    e = json.load(open('/verif/evidence/%s.json' % pid)); c = e['coverage']
    hs, cnt = [], {}
    for h in c['harnesses']:
        n = h['harness']; cnt[n] = cnt.get(n, 0) + 1
        if n not in hs: hs.append(n)
    hn = ", ".join((n if cnt[n] == 1 else n + ' ×%d' % cnt[n]) for n in hs)
    paths = c['paths'] if isinstance(c['paths'], int) else sum(h['paths'] for h in c['harnesses'])
    return hn, paths, c.get('traces_validated_against_impl'), e['wall_s']
out = []
for i, l in enumerate(s.split('\n')):
    m = re.match(r'\| (C\d\d) \| (.*?) \| ([\d  ]+) \| ([\d  ]+) \| (\d+) s \| (.*) \|$', l)
    if m and 80 < i < 130:
        pid = m.group(1); hn, paths, nv, wall = row(pid)
        l = "| %s | %s | %s | %s | %d s | %s |" % (pid, hn, f"{paths:,}".replace(',', ' '), f"{nv:,}".replace(',', ' '), round(wall), m.group(6))
    out.append(l)
open('/verif/DESIGN.md', 'w').write('\n'.join(out))
